package main

import (
	"fmt"
	"go/token"
	"go/types"
	"strings"
)

type libFn func(vc *VC, fr *Frame, st *State, args []Val, argTypes []types.Type, resType types.Type, pos token.Pos) Val

const u256Pfx = "(*github.com/holiman/uint256.Int)."
const bigPfx = "(*math/big.Int)."

var libTable map[string]libFn

func libModel(full string) libFn {
	if libTable == nil {
		initLib()
	}
	f := libTable[full]
	if f == nil {
		return nil
	}
	if strings.HasPrefix(full, u256Pfx) || strings.HasPrefix(full, "github.com/holiman/uint256.") {
		return func(vc *VC, fr *Frame, st *State, a []Val, at []types.Type, rt types.Type, pos token.Pos) Val {
			if vc.mode == ModeMath {
				if m := u256Math[strings.TrimPrefix(full, u256Pfx)]; m != nil {
					vc.usedLib("uint256." + strings.TrimPrefix(full, u256Pfx) + " (math)")
					return m(vc, fr, st, a, at, rt, pos)
				}
				vc.note("uint256 method " + full + " has no math-mode model: result abstracted")
				if len(a) > 0 && a[0].P != nil && isPointer(rt) {
					nv := vc.declFresh("u256abs", sortInt)
					vc.assume(st, mk(fmt.Sprintf("(and (<= 0 %s) (< %s %s))", nv.S, nv.S, pow2(256)), sortBool))
					vc.storePlace(st, a[0].P, nv)
					return a[0]
				}
				return vc.freshVal(st, "u256abs", rt)
			}
			return f(vc, fr, st, a, at, rt, pos)
		}
	}
	return f
}

// math-mode models of the uint256 methods the gas arithmetic uses (values are Int in [0, 2^256)).
var u256Math = map[string]libFn{
	"Uint64WithOverflow": func(vc *VC, fr *Frame, st *State, a []Val, at []types.Type, rt types.Type, pos token.Pos) Val {
		vc.nilChecks(fr, st, pos, a[0])
		z := vc.ld(st, a[0])
		return Val{Tup: []Val{{T: mk(fmt.Sprintf("(mod %s %s)", z.S, pow2(64)), sortInt)}, {T: mk(fmt.Sprintf("(>= %s %s)", z.S, pow2(64)), sortBool)}}}
	},
	"Uint64": func(vc *VC, fr *Frame, st *State, a []Val, at []types.Type, rt types.Type, pos token.Pos) Val {
		vc.nilChecks(fr, st, pos, a[0])
		z := vc.ld(st, a[0])
		return Val{T: mk(fmt.Sprintf("(mod %s %s)", z.S, pow2(64)), sortInt)}
	},
	"IsUint64": func(vc *VC, fr *Frame, st *State, a []Val, at []types.Type, rt types.Type, pos token.Pos) Val {
		vc.nilChecks(fr, st, pos, a[0])
		z := vc.ld(st, a[0])
		return Val{T: mk(fmt.Sprintf("(< %s %s)", z.S, pow2(64)), sortBool)}
	},
	"IsZero": func(vc *VC, fr *Frame, st *State, a []Val, at []types.Type, rt types.Type, pos token.Pos) Val {
		vc.nilChecks(fr, st, pos, a[0])
		return Val{T: tEq(vc.ld(st, a[0]), mk("0", sortInt))}
	},
	"Sign": func(vc *VC, fr *Frame, st *State, a []Val, at []types.Type, rt types.Type, pos token.Pos) Val {
		vc.nilChecks(fr, st, pos, a[0])
		z := vc.ld(st, a[0])
		return Val{T: mk(fmt.Sprintf("(ite (= %s 0) 0 (ite (>= %s %s) (- 1) 1))", z.S, z.S, pow2(255)), sortInt)}
	},
	"BitLen": func(vc *VC, fr *Frame, st *State, a []Val, at []types.Type, rt types.Type, pos token.Pos) Val {
		vc.nilChecks(fr, st, pos, a[0])
		z := vc.ld(st, a[0])
		r := vc.declFresh("bitlen", sortInt)
		vc.assume(st, mk(fmt.Sprintf("(and (<= 0 %s) (<= %s 256) (= (= %s 0) (= %s 0)))", r.S, r.S, r.S, z.S), sortBool))
		return Val{T: r}
	},
	"Lt": func(vc *VC, fr *Frame, st *State, a []Val, at []types.Type, rt types.Type, pos token.Pos) Val {
		vc.nilChecks(fr, st, pos, a[0], a[1])
		return Val{T: mk(app("<", vc.ld(st, a[0]), vc.ld(st, a[1])), sortBool)}
	},
	"Gt": func(vc *VC, fr *Frame, st *State, a []Val, at []types.Type, rt types.Type, pos token.Pos) Val {
		vc.nilChecks(fr, st, pos, a[0], a[1])
		return Val{T: mk(app(">", vc.ld(st, a[0]), vc.ld(st, a[1])), sortBool)}
	},
	"Eq": func(vc *VC, fr *Frame, st *State, a []Val, at []types.Type, rt types.Type, pos token.Pos) Val {
		vc.nilChecks(fr, st, pos, a[0], a[1])
		return Val{T: tEq(vc.ld(st, a[0]), vc.ld(st, a[1]))}
	},
	"LtUint64": func(vc *VC, fr *Frame, st *State, a []Val, at []types.Type, rt types.Type, pos token.Pos) Val {
		vc.nilChecks(fr, st, pos, a[0])
		return Val{T: mk(app("<", vc.ld(st, a[0]), a[1].T), sortBool)}
	},
	"GtUint64": func(vc *VC, fr *Frame, st *State, a []Val, at []types.Type, rt types.Type, pos token.Pos) Val {
		vc.nilChecks(fr, st, pos, a[0])
		return Val{T: mk(app(">", vc.ld(st, a[0]), a[1].T), sortBool)}
	},
	"SetUint64": func(vc *VC, fr *Frame, st *State, a []Val, at []types.Type, rt types.Type, pos token.Pos) Val {
		vc.nilChecks(fr, st, pos, a[0])
		vc.storePlace(st, a[0].P, a[1].T)
		return a[0]
	},
	"Clear": func(vc *VC, fr *Frame, st *State, a []Val, at []types.Type, rt types.Type, pos token.Pos) Val {
		vc.nilChecks(fr, st, pos, a[0])
		vc.storePlace(st, a[0].P, mk("0", sortInt))
		return a[0]
	},
	"Set": func(vc *VC, fr *Frame, st *State, a []Val, at []types.Type, rt types.Type, pos token.Pos) Val {
		vc.nilChecks(fr, st, pos, a[0], a[1])
		vc.storePlace(st, a[0].P, vc.ld(st, a[1]))
		return a[0]
	},
}

// libTrusted lists every library model (they are trusted contracts; reported in the evidence).
func libTrustedNames() []string {
	if libTable == nil {
		initLib()
	}
	var ns []string
	for k := range libTable {
		ns = append(ns, k)
	}
	return ns
}

func bv256(s string) Term { return mk(s, sortBV(256)) }

func (vc *VC) ld(st *State, v Val) Term {
	if v.P == nil {
		return v.T
	}
	return vc.loadPlace(st, v.P)
}

func (vc *VC) usedLib(name string) { vc.libUsed[name]++ }

func initLib() {
	libTable = map[string]libFn{}
	// ---- uint256: z.Op(x, y) returning z
	bin := func(name string, f func(x, y Term) Term) {
		libTable[u256Pfx+name] = func(vc *VC, fr *Frame, st *State, a []Val, at []types.Type, rt types.Type, pos token.Pos) Val {
			vc.usedLib("uint256." + name)
			vc.nilChecks(fr, st, pos, a[0], a[1], a[2])
			x, y := vc.ld(st, a[1]), vc.ld(st, a[2])
			vc.storePlace(st, a[0].P, vc.define("u256", f(x, y)))
			return a[0]
		}
	}
	z0 := "(_ bv0 256)"
	bin("Add", func(x, y Term) Term { return bv256(app("bvadd", x, y)) })
	bin("Sub", func(x, y Term) Term { return bv256(app("bvsub", x, y)) })
	bin("Mul", func(x, y Term) Term { return bv256(app("bvmul", x, y)) })
	bin("Div", func(x, y Term) Term {
		return bv256(fmt.Sprintf("(ite (= %s %s) %s (bvudiv %s %s))", y.S, z0, z0, x.S, y.S))
	})
	bin("Mod", func(x, y Term) Term {
		return bv256(fmt.Sprintf("(ite (= %s %s) %s (bvurem %s %s))", y.S, z0, z0, x.S, y.S))
	})
	bin("SDiv", func(x, y Term) Term {
		return bv256(fmt.Sprintf("(ite (= %s %s) %s (bvsdiv %s %s))", y.S, z0, z0, x.S, y.S))
	})
	bin("SMod", func(x, y Term) Term {
		return bv256(fmt.Sprintf("(ite (= %s %s) %s (bvsrem %s %s))", y.S, z0, z0, x.S, y.S))
	})
	bin("And", func(x, y Term) Term { return bv256(app("bvand", x, y)) })
	bin("Or", func(x, y Term) Term { return bv256(app("bvor", x, y)) })
	bin("Xor", func(x, y Term) Term { return bv256(app("bvxor", x, y)) })
	bin("Exp", func(x, y Term) Term { return bv256(app("exp256", x, y)) })
	bin("ExtendSign", func(x, b Term) Term {
		// b > 31: x; else sign-extend from bit 8b+7:  shift left by 248-8b then arithmetic shift right
		sh := fmt.Sprintf("(bvsub (_ bv248 256) (bvmul (_ bv8 256) %s))", b.S)
		return bv256(fmt.Sprintf("(ite (bvugt %s (_ bv31 256)) %s (bvashr (bvshl %s %s) %s))", b.S, x.S, x.S, sh, sh))
	})
	tern := func(name string, f func(x, y, m Term) Term) {
		libTable[u256Pfx+name] = func(vc *VC, fr *Frame, st *State, a []Val, at []types.Type, rt types.Type, pos token.Pos) Val {
			vc.usedLib("uint256." + name)
			vc.nilChecks(fr, st, pos, a[0], a[1], a[2], a[3])
			x, y, m := vc.ld(st, a[1]), vc.ld(st, a[2]), vc.ld(st, a[3])
			vc.storePlace(st, a[0].P, vc.define("u256", f(x, y, m)))
			return a[0]
		}
	}
	tern("AddMod", func(x, y, m Term) Term {
		return bv256(fmt.Sprintf("(ite (= %s %s) %s ((_ extract 255 0) (bvurem (bvadd ((_ zero_extend 1) %s) ((_ zero_extend 1) %s)) ((_ zero_extend 1) %s))))", m.S, z0, z0, x.S, y.S, m.S))
	})
	tern("MulMod", func(x, y, m Term) Term {
		return bv256(fmt.Sprintf("(ite (= %s %s) %s ((_ extract 255 0) (bvurem (bvmul ((_ zero_extend 256) %s) ((_ zero_extend 256) %s)) ((_ zero_extend 256) %s))))", m.S, z0, z0, x.S, y.S, m.S))
	})
	un := func(name string, f func(x Term) Term) {
		libTable[u256Pfx+name] = func(vc *VC, fr *Frame, st *State, a []Val, at []types.Type, rt types.Type, pos token.Pos) Val {
			vc.usedLib("uint256." + name)
			vc.nilChecks(fr, st, pos, a[0], a[1])
			x := vc.ld(st, a[1])
			vc.storePlace(st, a[0].P, vc.define("u256", f(x)))
			return a[0]
		}
	}
	un("Not", func(x Term) Term { return bv256("(bvnot " + x.S + ")") })
	un("Set", func(x Term) Term { return x })
	un("Neg", func(x Term) Term { return bv256("(bvneg " + x.S + ")") })
	un("Abs", func(x Term) Term { return bv256(fmt.Sprintf("(ite (bvslt %s %s) (bvneg %s) %s)", x.S, z0, x.S, x.S)) })
	// z.Byte(n): z = byte n (big endian) of z
	libTable[u256Pfx+"Byte"] = func(vc *VC, fr *Frame, st *State, a []Val, at []types.Type, rt types.Type, pos token.Pos) Val {
		vc.usedLib("uint256.Byte")
		vc.nilChecks(fr, st, pos, a[0], a[1])
		z, n := vc.ld(st, a[0]), vc.ld(st, a[1])
		sh := fmt.Sprintf("(bvmul (_ bv8 256) (bvsub (_ bv31 256) %s))", n.S)
		r := fmt.Sprintf("(ite (bvult %s (_ bv32 256)) (bvand (bvlshr %s %s) (_ bv255 256)) %s)", n.S, z.S, sh, z0)
		vc.storePlace(st, a[0].P, vc.define("u256", bv256(r)))
		return a[0]
	}
	shift := func(name, op string) {
		libTable[u256Pfx+name] = func(vc *VC, fr *Frame, st *State, a []Val, at []types.Type, rt types.Type, pos token.Pos) Val {
			vc.usedLib("uint256." + name)
			vc.nilChecks(fr, st, pos, a[0], a[1])
			x := vc.ld(st, a[1])
			n := a[2].T // uint (64 bit)
			cnt := fmt.Sprintf("((_ zero_extend 192) %s)", n.S)
			vc.storePlace(st, a[0].P, vc.define("u256", bv256(fmt.Sprintf("(%s %s %s)", op, x.S, cnt))))
			return a[0]
		}
	}
	shift("Lsh", "bvshl")
	shift("Rsh", "bvlshr")
	shift("SRsh", "bvashr")
	set := func(name string, v string) {
		libTable[u256Pfx+name] = func(vc *VC, fr *Frame, st *State, a []Val, at []types.Type, rt types.Type, pos token.Pos) Val {
			vc.usedLib("uint256." + name)
			vc.nilChecks(fr, st, pos, a[0])
			vc.storePlace(st, a[0].P, bv256(v))
			return a[0]
		}
	}
	set("Clear", z0)
	set("SetOne", "(_ bv1 256)")
	set("SetAllOne", "(bvnot (_ bv0 256))")
	libTable[u256Pfx+"SetUint64"] = func(vc *VC, fr *Frame, st *State, a []Val, at []types.Type, rt types.Type, pos token.Pos) Val {
		vc.usedLib("uint256.SetUint64")
		vc.nilChecks(fr, st, pos, a[0])
		vc.storePlace(st, a[0].P, bv256(fmt.Sprintf("((_ zero_extend 192) %s)", a[1].T.S)))
		return a[0]
	}
	pred := func(name string, f func(z, x Term) Term) {
		libTable[u256Pfx+name] = func(vc *VC, fr *Frame, st *State, a []Val, at []types.Type, rt types.Type, pos token.Pos) Val {
			vc.usedLib("uint256." + name)
			vc.nilChecks(fr, st, pos, a[0], a[1])
			return Val{T: f(vc.ld(st, a[0]), vc.ld(st, a[1]))}
		}
	}
	pred("Lt", func(z, x Term) Term { return mk(app("bvult", z, x), sortBool) })
	pred("Gt", func(z, x Term) Term { return mk(app("bvugt", z, x), sortBool) })
	pred("Slt", func(z, x Term) Term { return mk(app("bvslt", z, x), sortBool) })
	pred("Sgt", func(z, x Term) Term { return mk(app("bvsgt", z, x), sortBool) })
	pred("Eq", func(z, x Term) Term { return tEq(z, x) })
	libTable[u256Pfx+"Cmp"] = func(vc *VC, fr *Frame, st *State, a []Val, at []types.Type, rt types.Type, pos token.Pos) Val {
		vc.usedLib("uint256.Cmp")
		vc.nilChecks(fr, st, pos, a[0], a[1])
		z, x := vc.ld(st, a[0]), vc.ld(st, a[1])
		return Val{T: mk(fmt.Sprintf("(ite (bvult %s %s) %s (ite (= %s %s) %s %s))", z.S, x.S, vc.intConst(newBig(-1), 64).S, z.S, x.S, vc.intConst(newBig(0), 64).S, vc.intConst(newBig(1), 64).S), vc.intSort(64))}
	}
	pred64 := func(name, op string) {
		libTable[u256Pfx+name] = func(vc *VC, fr *Frame, st *State, a []Val, at []types.Type, rt types.Type, pos token.Pos) Val {
			vc.usedLib("uint256." + name)
			vc.nilChecks(fr, st, pos, a[0])
			z := vc.ld(st, a[0])
			return Val{T: mk(fmt.Sprintf("(%s %s ((_ zero_extend 192) %s))", op, z.S, a[1].T.S), sortBool)}
		}
	}
	pred64("LtUint64", "bvult")
	pred64("GtUint64", "bvugt")
	self := func(name string, f func(vc *VC, z Term) Term) {
		libTable[u256Pfx+name] = func(vc *VC, fr *Frame, st *State, a []Val, at []types.Type, rt types.Type, pos token.Pos) Val {
			vc.usedLib("uint256." + name)
			vc.nilChecks(fr, st, pos, a[0])
			return Val{T: f(vc, vc.ld(st, a[0]))}
		}
	}
	self("IsZero", func(vc *VC, z Term) Term { return tEq(z, bv256(z0)) })
	self("IsUint64", func(vc *VC, z Term) Term {
		return tEq(mk("((_ extract 255 64) "+z.S+")", sortBV(192)), mk("(_ bv0 192)", sortBV(192)))
	})
	self("Uint64", func(vc *VC, z Term) Term { return mk("((_ extract 63 0) "+z.S+")", sortBV(64)) })
	self("Sign", func(vc *VC, z Term) Term {
		return mk(fmt.Sprintf("(ite (= %s %s) (_ bv0 64) (ite (bvslt %s %s) (bvneg (_ bv1 64)) (_ bv1 64)))", z.S, z0, z.S, z0), sortBV(64))
	})
	self("BitLen", func(vc *VC, z Term) Term { vc.needBitLen = true; return mk("(bitlen256 "+z.S+")", sortBV(64)) })
	self("ByteLen", func(vc *VC, z Term) Term {
		vc.needBitLen = true
		return mk("(bvudiv (bvadd (bitlen256 "+z.S+") (_ bv7 64)) (_ bv8 64))", sortBV(64))
	})
	libTable[u256Pfx+"Uint64WithOverflow"] = func(vc *VC, fr *Frame, st *State, a []Val, at []types.Type, rt types.Type, pos token.Pos) Val {
		vc.usedLib("uint256.Uint64WithOverflow")
		vc.nilChecks(fr, st, pos, a[0])
		z := vc.ld(st, a[0])
		return Val{Tup: []Val{{T: mk("((_ extract 63 0) "+z.S+")", sortBV(64))},
			{T: tNot(tEq(mk("((_ extract 255 64) "+z.S+")", sortBV(192)), mk("(_ bv0 192)", sortBV(192))))}}}
	}
	libTable["github.com/holiman/uint256.NewInt"] = func(vc *VC, fr *Frame, st *State, a []Val, at []types.Type, rt types.Type, pos token.Pos) Val {
		vc.usedLib("uint256.NewInt")
		return vc.newObject(st, derefType(rt), bv256(z0))
	}
	libTable[u256Pfx+"Clone"] = func(vc *VC, fr *Frame, st *State, a []Val, at []types.Type, rt types.Type, pos token.Pos) Val {
		vc.usedLib("uint256.Clone")
		vc.nilChecks(fr, st, pos, a[0])
		return vc.newObject(st, derefType(rt), vc.ld(st, a[0]))
	}
	// SetBytes: big-endian value of the last min(len,32) bytes
	libTable[u256Pfx+"SetBytes"] = func(vc *VC, fr *Frame, st *State, a []Val, at []types.Type, rt types.Type, pos token.Pos) Val {
		vc.usedLib("uint256.SetBytes")
		vc.nilChecks(fr, st, pos, a[0])
		vc.needBE = true
		s := a[1].T
		arr := tSelect(vc.heapGet(st.heap, vc.arrComp(types.Typ[types.Uint8])), mk("(sl-ref "+s.S+")", sortRef))
		v := fmt.Sprintf("(be256 %s (sl-off %s) (sl-len %s))", arr.S, s.S, s.S)
		vc.storePlace(st, a[0].P, vc.define("u256", bv256(v)))
		return a[0]
	}
	libTable[u256Pfx+"SetBytes32"] = func(vc *VC, fr *Frame, st *State, a []Val, at []types.Type, rt types.Type, pos token.Pos) Val {
		vc.usedLib("uint256.SetBytes32")
		vc.nilChecks(fr, st, pos, a[0])
		vc.needBE = true
		s := a[1].T
		vc.oblige(st, fr, "safe.index", "SetBytes32", mk(fmt.Sprintf("(bvuge (sl-len %s) (_ bv32 64))", s.S), sortBool), "SetBytes32 needs 32 bytes", pos)
		arr := tSelect(vc.heapGet(st.heap, vc.arrComp(types.Typ[types.Uint8])), mk("(sl-ref "+s.S+")", sortRef))
		v := fmt.Sprintf("(be256 %s (sl-off %s) (_ bv32 64))", arr.S, s.S)
		vc.storePlace(st, a[0].P, vc.define("u256", bv256(v)))
		return a[0]
	}
	bytesN := func(name string, n int) {
		libTable[u256Pfx+name] = func(vc *VC, fr *Frame, st *State, a []Val, at []types.Type, rt types.Type, pos token.Pos) Val {
			vc.usedLib("uint256." + name)
			vc.nilChecks(fr, st, pos, a[0])
			z := vc.define("z", vc.ld(st, a[0]))
			arrS := sortArray(sortBV(64), sortBV(8))
			acc := fmt.Sprintf("((as const %s) #x00)", arrS.Name)
			for i := 0; i < n; i++ {
				lo := (n - 1 - i) * 8
				acc = fmt.Sprintf("(store %s (_ bv%d 64) ((_ extract %d %d) %s))", acc, i, lo+7, lo, z.S)
			}
			return Val{T: vc.define("bytes", mk(acc, arrS))}
		}
	}
	bytesN("Bytes32", 32)
	bytesN("Bytes20", 20)
	libTable[u256Pfx+"Bytes"] = func(vc *VC, fr *Frame, st *State, a []Val, at []types.Type, rt types.Type, pos token.Pos) Val {
		vc.usedLib("uint256.Bytes")
		vc.nilChecks(fr, st, pos, a[0])
		vc.needBitLen, vc.needBE = true, true
		z := vc.define("z", vc.ld(st, a[0]))
		n := vc.define("blen", mk("(bvudiv (bvadd (bitlen256 "+z.S+") (_ bv7 64)) (_ bv8 64))", sortBV(64)))
		ref := st.top
		st.top = vc.define("top", mk(fmt.Sprintf("(+ %s 1)", ref.S), sortRef))
		arrS := sortArray(sortBV(64), sortBV(8))
		na := vc.declFresh("u256bytes", arrS)
		comp := vc.arrComp(types.Typ[types.Uint8])
		h := vc.heapGet(st.heap, comp)
		vc.heapSet(st, comp, vc.define(comp, tStore(h, ref, na)))
		off := vc.define("boff", mk("(bvsub (_ bv32 64) "+n.S+")", sortBV(64)))
		// content: be256 of the slice is z, and each byte i of the 32-byte array is the big-endian byte
		for i := 0; i < 32; i++ {
			lo := (31 - i) * 8
			vc.assume(st, tEq(tSelect(na, bvLitI(int64(i), 64)), mk(fmt.Sprintf("((_ extract %d %d) %s)", lo+7, lo, z.S), sortBV(8))))
		}
		return Val{T: vc.define("bytes", vc.mkSlice(ref, off, n, n))}
	}
	libTable[u256Pfx+"WriteToSlice"] = func(vc *VC, fr *Frame, st *State, a []Val, at []types.Type, rt types.Type, pos token.Pos) Val {
		vc.usedLib("uint256.WriteToSlice")
		vc.nilChecks(fr, st, pos, a[0])
		z := vc.define("z", vc.ld(st, a[0]))
		d := a[1].T
		comp := vc.arrComp(types.Typ[types.Uint8])
		h := vc.heapGet(st.heap, comp)
		dref := mk("(sl-ref "+d.S+")", sortRef)
		arrS := sortArray(sortBV(64), sortBV(8))
		na := vc.declFresh("wts", arrS)
		old := vc.define("wts!old", tSelect(h, dref))
		// end = min(len-1, 31); dest[end-i] = byte i (little-endian index) for i in 0..end
		q := fmt.Sprintf("(forall ((i (_ BitVec 64))) (! (= (select %s i) (ite (and (bvule (sl-off %s) i) (bvult (bvsub i (sl-off %s)) (wts-n (sl-len %s)))) (wts-byte %s (bvsub (bvsub (wts-n (sl-len %s)) (_ bv1 64)) (bvsub i (sl-off %s)))) (select %s i))) :pattern ((select %s i))))",
			na.S, d.S, d.S, d.S, z.S, d.S, d.S, old.S, na.S)
		vc.needWTS = true
		vc.assume(st, mk(q, sortBool))
		vc.heapSet(st, comp, vc.define(comp, tStore(h, dref, na)))
		return Val{}
	}
	// ToBig / SetFromBig: values through Int are out of bv reach; abstract
	libTable[u256Pfx+"ToBig"] = func(vc *VC, fr *Frame, st *State, a []Val, at []types.Type, rt types.Type, pos token.Pos) Val {
		vc.usedLib("uint256.ToBig")
		vc.nilChecks(fr, st, pos, a[0])
		z := vc.ld(st, a[0])
		v := vc.newObject(st, derefType(rt), mk("(bv2nat "+z.S+")", sortInt))
		return v
	}

	// ---- decimal digit strings (C18 formatting): big.Int.String, strings.Repeat("0", k), fmt.Sprintf with a
	// format made of %s verbs and literal text. dv is the rational value a digit string denotes.
	strCat := func(vc *VC, st *State, x, y Term) Term {
		r := vc.define("strcat", mk(fmt.Sprintf("(str-cat %s %s)", x.S, y.S), sortStr))
		vc.assume(st, tEq(mk("(str-len "+r.S+")", vc.idxSort()), vc.idxAdd(mk("(str-len "+x.S+")", vc.idxSort()), mk("(str-len "+y.S+")", vc.idxSort()))))
		return r
	}
	libTable[bigPfx+"String"] = func(vc *VC, fr *Frame, st *State, a []Val, at []types.Type, rt types.Type, pos token.Pos) Val {
		vc.usedLib("big.Int.String")
		vc.nilChecks(fr, st, pos, a[0])
		vc.needStr, vc.needDigits = true, true
		x := vc.ld(st, a[0])
		ax := mk(fmt.Sprintf("(ite (>= %s 0) %s (- %s))", x.S, x.S, x.S), sortInt)
		d := vc.define("decstr", mk("(decstr "+ax.S+")", sortStr))
		neg := vc.strLit("-")
		r := vc.define("bigstr", tIte(mk("(< "+x.S+" 0)", sortBool), strCat(vc, st, neg, d), d))
		return Val{T: r}
	}
	libTable["strings.Repeat"] = func(vc *VC, fr *Frame, st *State, a []Val, at []types.Type, rt types.Type, pos token.Pos) Val {
		vc.usedLib("strings.Repeat")
		vc.needStr = true
		// only the form Repeat("0", k) has a model; anything else is an arbitrary string
		if a[0].T.S == vc.strLit("0").S {
			vc.needDigits = true
			k := a[1].T
			vc.oblige(st, fr, "safe.repeat", "", vc.idxLe(vc.idxLit(0), k), "strings.Repeat count is not negative", pos)
			ki := k
			if vc.mode == ModeBV {
				ki = mk(fmt.Sprintf("(ite (bvslt %s (_ bv0 64)) (- (bv2nat (bvneg %s))) (bv2nat %s))", k.S, k.S, k.S), sortInt)
			}
			r := vc.define("zeros", mk("(zeros "+ki.S+")", sortStr))
			vc.assume(st, tEq(mk("(str-len "+r.S+")", vc.idxSort()), k))
			return Val{T: r}
		}
		return vc.freshVal(st, "repeat", rt)
	}
	libTable["fmt.Sprintf"] = func(vc *VC, fr *Frame, st *State, a []Val, at []types.Type, rt types.Type, pos token.Pos) Val {
		vc.needStr = true
		// the format must be a literal made of %s verbs and plain text, the arguments strings
		format, ok := "", false
		for lit, t := range vc.strLits {
			if t.S == a[0].T.S {
				format, ok = lit, true
			}
		}
		fresh := func() Val {
			v := vc.freshVal(st, "ef!Sprintf", rt)
			if ok && len(format) > 0 && format[0] != '%' {
				vc.assume(st, tNot(tEq(v.T, vc.strLit(""))))
			}
			vc.effectFree["fmt.Sprintf"]++
			return v
		}
		if !ok || len(a) < 2 || a[1].T.T == nil || a[1].T.T.K != SSlice {
			return fresh()
		}
		var parts []string // literal text and "%s" markers
		for i := 0; i < len(format); {
			if format[i] == '%' {
				if i+1 < len(format) && format[i+1] == 's' {
					parts = append(parts, "%s")
					i += 2
					continue
				}
				return fresh()
			}
			j := i
			for j < len(format) && format[j] != '%' {
				j++
			}
			parts = append(parts, format[i:j])
			i = j
		}
		var ifaceT types.Type = types.NewInterfaceType(nil, nil)
		if sl, ok := at[1].Underlying().(*types.Slice); ok {
			ifaceT = sl.Elem()
		}
		arr := tSelect(vc.heapGet(st.heap, vc.arrComp(ifaceT)), mk("(sl-ref "+a[1].T.S+")", sortRef))
		strBox := vc.heapGet(st.heap, vc.boxComp(types.Typ[types.String]))
		sid := vc.typeID(types.Typ[types.String])
		var pieces []Term
		argi := 0
		allStr := tTrue
		for _, p := range parts {
			var piece Term
			if p == "%s" {
				el := tSelect(arr, vc.idxAdd(mk("(sl-off "+a[1].T.S+")", vc.idxSort()), vc.idxLit(int64(argi))))
				el.T = sortIface
				allStr = tAnd(allStr, tEq(mk("(ityp "+el.S+")", sortInt), mk(fmt.Sprint(sid), sortInt)))
				piece = tSelect(strBox, mk("(iref "+el.S+")", sortRef))
				piece.T = sortStr
				piece = vc.define("sarg", piece)
				argi++
			} else {
				piece = vc.strLit(p)
			}
			pieces = append(pieces, piece)
		}
		// right-associated: a ++ (b ++ (c ++ d))
		var acc Term
		have := false
		for i := len(pieces) - 1; i >= 0; i-- {
			if !have {
				acc, have = pieces[i], true
			} else {
				acc = strCat(vc, st, pieces[i], acc)
			}
		}
		if !have {
			return fresh()
		}
		vc.usedLib("fmt.Sprintf (%s/literal formats: concatenation)")
		// if some argument is not a string the result is arbitrary
		f := vc.freshVal(st, "sprintf", rt)
		return Val{T: vc.define("sprintf", tIte(allStr, acc, f.T))}
	}

	// ---- bytes.Compare / bytes.Equal: equality of contents is equality of the abstract byte strings
	bytesOfSlice := func(vc *VC, st *State, s Term) Term {
		arr := tSelect(vc.heapGet(st.heap, vc.arrComp(types.Typ[types.Uint8])), mk("(sl-ref "+s.S+")", sortRef))
		return vc.bytesOf(arr, mk("(sl-off "+s.S+")", vc.idxSort()), mk("(sl-len "+s.S+")", vc.idxSort()))
	}
	// ---- encoding/binary ByteOrder.PutUintN: writes the N/8 bytes of v at b[0:N/8] (panics when b is shorter).
	for _, e := range []struct {
		recv string
		big  bool
	}{{"bigEndian", true}, {"littleEndian", false}} {
		for _, bits := range []int{16, 32, 64} {
			e, bits := e, bits
			name := fmt.Sprintf("(encoding/binary.%s).PutUint%d", e.recv, bits)
			libTable[name] = func(vc *VC, fr *Frame, st *State, a []Val, at []types.Type, rt types.Type, pos token.Pos) Val {
				vc.usedLib("binary." + e.recv + fmt.Sprintf(".PutUint%d", bits))
				n := bits / 8
				is := vc.idxSort()
				d := a[1].T
				dRef, dOff, dLen := mk("(sl-ref "+d.S+")", sortRef), mk("(sl-off "+d.S+")", is), mk("(sl-len "+d.S+")", is)
				vc.oblige(st, fr, "safe.index", fmt.Sprintf("PutUint%d", bits), vc.idxLe(vc.idxLit(int64(n)), dLen), fmt.Sprintf("PutUint%d needs %d bytes", bits, n), pos)
				comp := vc.arrComp(types.Typ[types.Uint8])
				h := vc.heapGet(st.heap, comp)
				arr := tSelect(h, dRef)
				v := vc.define("put!v", a[2].T)
				for k := 0; k < n; k++ {
					sh := k // little endian: byte k is bits 8k..8k+7
					if e.big {
						sh = n - 1 - k
					}
					var bt Term
					if vc.mode == ModeBV {
						bt = mk(fmt.Sprintf("((_ extract %d %d) %s)", sh*8+7, sh*8, v.S), vc.intSort(8))
					} else {
						bt = mk(fmt.Sprintf("(mod (div %s %s) 256)", v.S, pow2(uint(sh*8))), vc.intSort(8))
					}
					arr = tStore(arr, vc.idxAdd(dOff, vc.idxLit(int64(k))), bt)
				}
				na := vc.define("put!res", arr)
				vc.pendingRef = dRef.S
				vc.heapSet(st, comp, vc.define(comp, tStore(h, dRef, na)))
				vc.pendingRef = ""
				return Val{}
			}
		}
	}
	libTable["bytes.Compare"] = func(vc *VC, fr *Frame, st *State, a []Val, at []types.Type, rt types.Type, pos token.Pos) Val {
		vc.usedLib("bytes.Compare")
		r := vc.freshVal(st, "bcmp", rt)
		zero := vc.intConst(newBig(0), 64)
		vc.assume(st, tEq(tEq(r.T, zero), tEq(bytesOfSlice(vc, st, a[0].T), bytesOfSlice(vc, st, a[1].T))))
		return r
	}
	libTable["bytes.Equal"] = func(vc *VC, fr *Frame, st *State, a []Val, at []types.Type, rt types.Type, pos token.Pos) Val {
		vc.usedLib("bytes.Equal")
		return Val{T: vc.define("beq", tEq(bytesOfSlice(vc, st, a[0].T), bytesOfSlice(vc, st, a[1].T)))}
	}

	// ---- common.Hash / common.Address: Bytes() is a slice of a copy of the array value
	for _, tn := range []string{"Hash", "Address"} {
		libTable["(com.tuntun.rangers/node/src/common."+tn+").Bytes"] = func(vc *VC, fr *Frame, st *State, a []Val, at []types.Type, rt types.Type, pos token.Pos) Val {
			vc.usedLib("common.Hash/Address.Bytes")
			arr, ok := at[0].Underlying().(*types.Array)
			if !ok {
				return vc.freshVal(st, "bytes", rt)
			}
			ref := st.top
			st.top = vc.define("top", mk(fmt.Sprintf("(+ %s 1)", ref.S), sortRef))
			comp := vc.arrComp(arr.Elem())
			h := vc.heapGet(st.heap, comp)
			vc.heapSet(st, comp, vc.define(comp, tStore(h, ref, a[0].T)))
			n := vc.idxLit(arr.Len())
			return Val{T: vc.mkSlice(ref, vc.idxLit(0), n, n)}
		}
	}

	// ---- common.BytesToHash: the hash value whose 32 bytes are a function (tohash32: right-aligned copy /
	// truncation) of the argument's bytes
	libTable["com.tuntun.rangers/node/src/common.BytesToHash"] = func(vc *VC, fr *Frame, st *State, a []Val, at []types.Type, rt types.Type, pos token.Pos) Val {
		vc.usedLib("common.BytesToHash")
		arr, ok := rt.Underlying().(*types.Array)
		r := vc.freshVal(st, "tohash", rt)
		if !ok || r.T.T == nil {
			return r
		}
		vc.needBytes, vc.needToHash = true, true
		n := vc.idxLit(arr.Len())
		vc.assume(st, tEq(vc.bytesOf(r.T, vc.idxLit(0), n), mk("(tohash32 "+bytesOfSlice(vc, st, a[0].T).S+")", &Sort{K: SOpaque, Name: "Bytes"})))
		return r
	}

	// ---- math/bits
	libTable["math/bits.Add64"] = func(vc *VC, fr *Frame, st *State, a []Val, at []types.Type, rt types.Type, pos token.Pos) Val {
		vc.usedLib("bits.Add64")
		if vc.mode != ModeBV {
			w := vc.define("add65", mk(fmt.Sprintf("(+ %s %s %s)", a[0].T.S, a[1].T.S, a[2].T.S), sortInt))
			return Val{Tup: []Val{{T: mk(fmt.Sprintf("(mod %s %s)", w.S, pow2(64)), sortInt)}, {T: mk(fmt.Sprintf("(div %s %s)", w.S, pow2(64)), sortInt)}}}
		}
		w := vc.define("add65", mk(fmt.Sprintf("(bvadd ((_ zero_extend 1) %s) ((_ zero_extend 1) %s) ((_ zero_extend 1) %s))", a[0].T.S, a[1].T.S, a[2].T.S), sortBV(65)))
		return Val{Tup: []Val{{T: mk("((_ extract 63 0) "+w.S+")", sortBV(64))}, {T: mk("((_ zero_extend 63) ((_ extract 64 64) "+w.S+"))", sortBV(64))}}}
	}
	libTable["math/bits.Sub64"] = func(vc *VC, fr *Frame, st *State, a []Val, at []types.Type, rt types.Type, pos token.Pos) Val {
		vc.usedLib("bits.Sub64")
		if vc.mode != ModeBV {
			return vc.freshVal(st, "bits", rt)
		}
		w := vc.define("sub65", mk(fmt.Sprintf("(bvsub (bvsub ((_ zero_extend 1) %s) ((_ zero_extend 1) %s)) ((_ zero_extend 1) %s))", a[0].T.S, a[1].T.S, a[2].T.S), sortBV(65)))
		return Val{Tup: []Val{{T: mk("((_ extract 63 0) "+w.S+")", sortBV(64))}, {T: mk("((_ zero_extend 63) ((_ extract 64 64) "+w.S+"))", sortBV(64))}}}
	}
	libTable["math/bits.Mul64"] = func(vc *VC, fr *Frame, st *State, a []Val, at []types.Type, rt types.Type, pos token.Pos) Val {
		vc.usedLib("bits.Mul64")
		if vc.mode != ModeBV {
			w := vc.define("mul128", mk(fmt.Sprintf("(* %s %s)", a[0].T.S, a[1].T.S), sortInt))
			return Val{Tup: []Val{{T: mk(fmt.Sprintf("(div %s %s)", w.S, pow2(64)), sortInt)}, {T: mk(fmt.Sprintf("(mod %s %s)", w.S, pow2(64)), sortInt)}}}
		}
		w := vc.define("mul128", mk(fmt.Sprintf("(bvmul ((_ zero_extend 64) %s) ((_ zero_extend 64) %s))", a[0].T.S, a[1].T.S), sortBV(128)))
		return Val{Tup: []Val{{T: mk("((_ extract 127 64) "+w.S+")", sortBV(64))}, {T: mk("((_ extract 63 0) "+w.S+")", sortBV(64))}}}
	}

	// ---- math/big.Int (values are mathematical integers in component P:math/big.Int)
	bigBin := func(name string, f func(x, y Term) Term) {
		libTable[bigPfx+name] = func(vc *VC, fr *Frame, st *State, a []Val, at []types.Type, rt types.Type, pos token.Pos) Val {
			vc.usedLib("big.Int." + name)
			vc.nilChecks(fr, st, pos, a[0], a[1], a[2])
			x, y := vc.ld(st, a[1]), vc.ld(st, a[2])
			vc.storePlace(st, a[0].P, vc.define("big", f(x, y)))
			return a[0]
		}
	}
	bigBin("Add", func(x, y Term) Term { return mk(app("+", x, y), sortInt) })
	bigBin("Sub", func(x, y Term) Term { return mk(app("-", x, y), sortInt) })
	bigBin("Mul", func(x, y Term) Term { return mk(app("*", x, y), sortInt) })
	// Quo/Rem truncate; Div/Mod are Euclidean. Division by zero panics in math/big.
	bigDiv := func(name string, f func(x, y Term) Term) {
		libTable[bigPfx+name] = func(vc *VC, fr *Frame, st *State, a []Val, at []types.Type, rt types.Type, pos token.Pos) Val {
			vc.usedLib("big.Int." + name)
			vc.nilChecks(fr, st, pos, a[0], a[1], a[2])
			x, y := vc.ld(st, a[1]), vc.ld(st, a[2])
			vc.oblige(st, fr, "safe.div", "big."+name, tNot(tEq(y, mk("0", sortInt))), "big.Int division by zero", pos)
			vc.storePlace(st, a[0].P, vc.define("big", f(x, y)))
			return a[0]
		}
	}
	bigDiv("Div", func(x, y Term) Term { return mk(app("div", x, y), sortInt) })
	bigDiv("Mod", func(x, y Term) Term { return mk(app("mod", x, y), sortInt) })
	bigDiv("Quo", func(x, y Term) Term {
		return mk(fmt.Sprintf("(ite (>= %s 0) (ite (> %s 0) (div %s %s) (- (div %s (- %s)))) (ite (> %s 0) (- (div (- %s) %s)) (div (- %s) (- %s))))", x.S, y.S, x.S, y.S, x.S, y.S, y.S, x.S, y.S, x.S, y.S), sortInt)
	})
	bigUn := func(name string, f func(x Term) Term) {
		libTable[bigPfx+name] = func(vc *VC, fr *Frame, st *State, a []Val, at []types.Type, rt types.Type, pos token.Pos) Val {
			vc.usedLib("big.Int." + name)
			vc.nilChecks(fr, st, pos, a[0], a[1])
			vc.storePlace(st, a[0].P, vc.define("big", f(vc.ld(st, a[1]))))
			return a[0]
		}
	}
	bigUn("Set", func(x Term) Term { return x })
	bigUn("Neg", func(x Term) Term { return mk("(- "+x.S+")", sortInt) })
	bigUn("Abs", func(x Term) Term { return mk(fmt.Sprintf("(ite (>= %s 0) %s (- %s))", x.S, x.S, x.S), sortInt) })
	// ---- math/big.Float: value as Real, precision and rounding mode tracked per object.
	// Rounding to prec bits in mode m is an envelope around the exact value p (never IEEE bit-blasting):
	//   ToNearestEven/Away(0,1): |r-p| <= |p|*2^-prec      ToZero(2): |p|*(1-2^(1-prec)) <= |r| <= |p|
	//   AwayFromZero(3):         |p| <= |r| <= |p|*(1+2^(1-prec))      (same sign; exact when p is 0)
	//   ToNegativeInf/ToPositiveInf(4,5): |r-p| <= |p|*2^(1-prec)
	fPfx := "(*math/big.Float)."
	fAux := func(vc *VC, st *State, which string) (string, Term) {
		comp := "X:big.Float." + which
		vc.registerComp(comp, sortArray(sortRef, sortInt))
		return comp, vc.heapGet(st.heap, comp)
	}
	fGet := func(vc *VC, st *State, p *Place, which string) Term {
		_, h := fAux(vc, st, which)
		return tSelect(h, vc.refOf(p))
	}
	fSet := func(vc *VC, st *State, p *Place, which string, v Term) {
		comp, h := fAux(vc, st, which)
		st.heap.known[comp] = vc.define(comp, tStore(h, vc.refOf(p), v))
		vc.written[comp] = true
	}
	pow2neg := func(n int64) string { // 2^-n as real literal
		return fmt.Sprintf("(/ 1.0 %s.0)", new(bigInt).Lsh(newBig(1), uint(n)).String())
	}
	roundTo := func(vc *VC, st *State, exact Term, prec Term, mode Term) Term {
		r := vc.declFresh("frnd", sortReal)
		pk, okp := litValue(prec)
		mk_, okm := litValue(mode)
		ap, ar := absReal(exact.S), absReal(r.S)
		sign := fmt.Sprintf("(and (=> (= %s 0.0) (= %s 0.0)) (=> (> %s 0.0) (> %s 0.0)) (=> (< %s 0.0) (< %s 0.0)))", exact.S, r.S, exact.S, r.S, exact.S, r.S)
		envFor := func(pk int64, mode int64) string {
			var env string
			switch mode {
			case 0, 1:
				env = fmt.Sprintf("(and (<= (* %s (- 1.0 %s)) %s) (<= %s (* %s (+ 1.0 %s))))", ap, pow2neg(pk), ar, ar, ap, pow2neg(pk))
			case 2:
				env = fmt.Sprintf("(and (<= (* %s (- 1.0 %s)) %s) (<= %s %s))", ap, pow2neg(pk-1), ar, ar, ap)
			case 3:
				env = fmt.Sprintf("(and (<= %s %s) (<= %s (* %s (+ 1.0 %s))))", ap, ar, ar, ap, pow2neg(pk-1))
			default:
				env = fmt.Sprintf("(and (<= (* %s (- 1.0 %s)) %s) (<= %s (* %s (+ 1.0 %s))))", ap, pow2neg(pk-1), ar, ar, ap, pow2neg(pk-1))
			}
			// an integer of magnitude below 2^prec is representable with prec mantissa bits: no rounding happens
			two := new(bigInt).Lsh(newBig(1), uint(pk)).String()
			exactIf := fmt.Sprintf("(=> (and (is_int %s) (< %s %s.0)) (= %s %s))", exact.S, ap, two, r.S, exact.S)
			return "(and " + env + " " + sign + " " + exactIf + ")"
		}
		if !okp || !okm || pk <= 0 || pk > 4096 {
			// the precision is not a literal here (it travels through the per-object precision map): sign
			// preservation always, and the envelope under each of the precisions the code base uses
			vc.assume(st, mk(fmt.Sprintf("(and (=> (= %s 0.0) (= %s 0.0)) (=> (> %s 0.0) (>= %s 0.0)) (=> (< %s 0.0) (<= %s 0.0)))", exact.S, r.S, exact.S, r.S, exact.S, r.S), sortBool))
			if prec.T != nil && prec.T.K == SInt {
				cands := []int64{24, 53, 64, 128, 256, 512}
				if okp && pk > 0 && pk <= 4096 {
					cands = []int64{pk}
				}
				for _, cand := range cands {
					for _, m := range []int64{0, 1, 2, 3, 4, 5} {
						if okm && m != mk_ {
							continue
						}
						guard := fmt.Sprintf("(= %s %d)", prec.S, cand)
						if !okm {
							if mode.T == nil || mode.T.K != SInt {
								continue
							}
							guard = fmt.Sprintf("(and %s (= %s %d))", guard, mode.S, m)
						}
						vc.assume(st, mk(fmt.Sprintf("(=> %s %s)", guard, envFor(cand, m)), sortBool))
					}
				}
			}
			return r
		}
		vc.assume(st, mk(envFor(pk, mk_), sortBool))
		return r
	}
	// big.ParseFloat(s, base, prec, mode): the decimal value of s (uninterpreted dec-val) rounded to prec/mode
	libTable["math/big.ParseFloat"] = func(vc *VC, fr *Frame, st *State, a []Val, at []types.Type, rt types.Type, pos token.Pos) Val {
		vc.usedLib("big.ParseFloat (value of the numeral rounded to prec bits in the given mode)")
		vc.needDecVal, vc.needStr = true, true
		tup := rt.(*types.Tuple)
		fv := vc.newObject(st, derefType(tup.At(0).Type()), mk("0.0", sortReal))
		errv := vc.freshVal(st, "parse!err", tup.At(2).Type())
		basev := vc.freshVal(st, "parse!base", tup.At(1).Type())
		ok := tEq(errv.T, mk("(mk-iface 0 0)", sortIface))
		prec := a[2].T
		if vc.mode == ModeMath {
			exact := vc.decVal(a[0].T, "val")
			r := roundTo(vc, st, exact, prec, a[3].T)
			vc.storePlace(st, fv.P, r)
			fSet(vc, st, fv.P, "prec", prec)
			fSet(vc, st, fv.P, "mode", a[3].T)
			// a syntactically valid numeral parses; validity is an uninterpreted predicate of the string
			vc.assume(st, tEq(ok, vc.decVal(a[0].T, "valid")))
		}
		// (on error the real function returns a nil *Float; callers return before using it)
		_ = ok
		return Val{Tup: []Val{fv, basev, errv}}
	}
	libTable[fPfx+"SetInt"] = func(vc *VC, fr *Frame, st *State, a []Val, at []types.Type, rt types.Type, pos token.Pos) Val {
		vc.usedLib("big.Float.SetInt")
		vc.nilChecks(fr, st, pos, a...)
		x := vc.ld(st, a[1])
		// prec 0 => precision becomes max(bitlen, 64): exact below 2^64; otherwise rounded to the set precision
		p := fGet(vc, st, a[0].P, "prec")
		if lv, ok := vc.bigLit(x); ok {
			// a literal below 2^63 is represented exactly whatever the precision is (>= 64 after SetInt)
			vc.storePlace(st, a[0].P, mk(fmt.Sprintf("%d.0", lv), sortReal))
			fSet(vc, st, a[0].P, "prec", tIte(tEq(p, mk("0", sortInt)), mk("64", sortInt), p))
			return a[0]
		}
		exact := mk("(to_real "+x.S+")", sortReal)
		r := vc.declFresh("fset", sortReal)
		vc.assume(st, tImp(tEq(p, mk("0", sortInt)), tEq(r, exact)))
		vc.assume(st, tImp(mk(fmt.Sprintf("(and (<= (- 18446744073709551615) %s) (<= %s 18446744073709551615))", x.S, x.S), sortBool), tEq(r, exact)))
		vc.storePlace(st, a[0].P, r)
		fSet(vc, st, a[0].P, "prec", tIte(tEq(p, mk("0", sortInt)), mk("64", sortInt), p))
		return a[0]
	}
	libTable[fPfx+"SetPrec"] = func(vc *VC, fr *Frame, st *State, a []Val, at []types.Type, rt types.Type, pos token.Pos) Val {
		vc.usedLib("big.Float.SetPrec")
		vc.nilChecks(fr, st, pos, a[0])
		cur := vc.ld(st, a[0])
		r := roundTo(vc, st, cur, a[1].T, fGet(vc, st, a[0].P, "mode"))
		vc.storePlace(st, a[0].P, r)
		fSet(vc, st, a[0].P, "prec", a[1].T)
		return a[0]
	}
	libTable[fPfx+"SetMode"] = func(vc *VC, fr *Frame, st *State, a []Val, at []types.Type, rt types.Type, pos token.Pos) Val {
		vc.usedLib("big.Float.SetMode")
		vc.nilChecks(fr, st, pos, a[0])
		fSet(vc, st, a[0].P, "mode", a[1].T)
		return a[0]
	}
	libTable[fPfx+"SetFloat64"] = func(vc *VC, fr *Frame, st *State, a []Val, at []types.Type, rt types.Type, pos token.Pos) Val {
		vc.usedLib("big.Float.SetFloat64")
		vc.nilChecks(fr, st, pos, a[0])
		p := fGet(vc, st, a[0].P, "prec")
		// exact when prec is 0 (becomes 53) or >= 53
		r := vc.declFresh("fset", sortReal)
		vc.assume(st, tImp(mk(fmt.Sprintf("(or (= %s 0) (>= %s 53))", p.S, p.S), sortBool), tEq(r, a[1].T)))
		vc.storePlace(st, a[0].P, r)
		fSet(vc, st, a[0].P, "prec", tIte(tEq(p, mk("0", sortInt)), mk("53", sortInt), p))
		return a[0]
	}
	libTable[fPfx+"Mul"] = func(vc *VC, fr *Frame, st *State, a []Val, at []types.Type, rt types.Type, pos token.Pos) Val {
		vc.usedLib("big.Float.Mul (exact product rounded to the receiver's precision and mode)")
		vc.nilChecks(fr, st, pos, a...)
		x, y := vc.ld(st, a[1]), vc.ld(st, a[2])
		zp := fGet(vc, st, a[0].P, "prec")
		xp, yp := fGet(vc, st, a[1].P, "prec"), fGet(vc, st, a[2].P, "prec")
		eff := vc.define("fprec", tIte(tEq(zp, mk("0", sortInt)), tIte(mk(app(">=", xp, yp), sortBool), xp, yp), zp))
		exact := vc.define("fprod", mk(app("*", x, y), sortReal))
		// (the product of two integers is an integer: the solvers do not derive this for a symbolic factor)
		vc.assume(st, mk(fmt.Sprintf("(=> (and (is_int %s) (is_int %s)) (is_int %s))", x.S, y.S, exact.S), sortBool))
		// the envelope needs literal precision: resolve through definitions when possible
		precLit := eff
		if d, ok := vc.defs[eff.S]; ok {
			precLit = mk(d, sortInt)
		}
		r := roundTo(vc, st, exact, vc.simplifyIte(precLit), vc.simplifyIte(fGet(vc, st, a[0].P, "mode")))
		vc.storePlace(st, a[0].P, r)
		fSet(vc, st, a[0].P, "prec", eff)
		return a[0]
	}
	// Int truncates toward zero
	libTable[fPfx+"Int"] = func(vc *VC, fr *Frame, st *State, a []Val, at []types.Type, rt types.Type, pos token.Pos) Val {
		vc.usedLib("big.Float.Int (truncation toward zero)")
		vc.nilChecks(fr, st, pos, a[0])
		x := vc.ld(st, a[0])
		tr := mk(fmt.Sprintf("(ite (>= %s 0.0) (to_int %s) (- (to_int (- %s))))", x.S, x.S, x.S), sortInt)
		tup := rt.(*types.Tuple)
		var res Val
		if a[1].P != nil && !(a[1].P.Kind == BPtr && a[1].P.Ref.S == "0") {
			// z given: the result is stored there and z is returned (a nil z allocates; only the literal nil is recognised)
			vc.storePlace(st, a[1].P, vc.define("ftrunc", tr))
			res = a[1]
		} else {
			res = vc.newObject(st, derefType(tup.At(0).Type()), vc.define("ftrunc", tr))
		}
		return Val{Tup: []Val{res, vc.freshVal(st, "facc", tup.At(1).Type())}}
	}
	// (*big.Int).Exp(x, y, nil) with a small literal exponent
	libTable[bigPfx+"Exp"] = func(vc *VC, fr *Frame, st *State, a []Val, at []types.Type, rt types.Type, pos token.Pos) Val {
		vc.usedLib("big.Int.Exp")
		vc.nilChecks(fr, st, pos, a[0], a[1], a[2])
		x, y := vc.ld(st, a[1]), vc.ld(st, a[2])
		r := vc.declFresh("bigexp", sortInt)
		// unrolled for exponents 0..40 (larger or modular: unconstrained)
		isNilMod := mk("true", sortBool)
		if len(a) > 3 && a[3].P != nil {
			isNilMod = tEq(vc.refOf(a[3].P), mk("0", sortRef))
		}
		// both operands literal (package constants, big.NewInt(c)): compute the power directly
		if bv, okb := vc.bigLit(x); okb {
			if ev, oke := vc.bigLit(y); oke && ev >= 0 && ev <= 400 && isNilMod.S == "true" {
				p := new(bigInt).Exp(newBig(bv), newBig(ev), nil)
				vc.storePlace(st, a[0].P, intLit(p))
				return a[0]
			}
		}
		if bv, okb := vc.bigLit(x); okb && isNilMod.S == "true" {
			// literal base, symbolic exponent: a table of constants (no nonlinear terms)
			for k := int64(0); k <= 40; k++ {
				p := new(bigInt).Exp(newBig(bv), newBig(k), nil)
				vc.assume(st, tImp(tEq(y, mk(fmt.Sprint(k), sortInt)), tEq(r, intLit(p))))
			}
			vc.storePlace(st, a[0].P, r)
			return a[0]
		}
		xb := vc.define("bigexp!b", mk("(+ 0 "+x.S+")                                                  ", sortInt))
		yb := vc.define("bigexp!e", mk("(+ 0 "+y.S+")                                                  ", sortInt))
		acc := mk("1", sortInt)
		for k := 0; k <= 40; k++ {
			vc.assume(st, tImp(tAnd(isNilMod, tEq(yb, mk(fmt.Sprint(k), sortInt))), tEq(r, acc)))
			acc = vc.define("bigexp!p", mk(fmt.Sprintf("(* %s %s)                                                  ", acc.S, xb.S), sortInt))
		}
		vc.storePlace(st, a[0].P, r)
		return a[0]
	}

	// ---- math/big.Rat (exact rationals as Real)
	ratPfx := "(*math/big.Rat)."
	ratSet := func(name string, f func(vc *VC, st *State, a []Val) Term) {
		libTable[ratPfx+name] = func(vc *VC, fr *Frame, st *State, a []Val, at []types.Type, rt types.Type, pos token.Pos) Val {
			vc.usedLib("big.Rat." + name)
			vc.nilChecks(fr, st, pos, a...)
			vc.storePlace(st, a[0].P, vc.define("rat", f(vc, st, a)))
			return a[0]
		}
	}
	toReal := func(vc *VC, t Term) Term {
		if t.T.K == SReal {
			return t
		}
		if t.T.K == SBV {
			return mk("(to_real (bv2nat "+t.S+"))", sortReal)
		}
		return mk("(to_real "+t.S+")", sortReal)
	}
	ratSet("SetInt64", func(vc *VC, st *State, a []Val) Term { return toReal(vc, a[1].T) })
	ratSet("SetUint64", func(vc *VC, st *State, a []Val) Term { return toReal(vc, a[1].T) })
	ratSet("SetInt", func(vc *VC, st *State, a []Val) Term { return toReal(vc, vc.ld(st, a[1])) })
	ratSet("SetFloat64", func(vc *VC, st *State, a []Val) Term { return toReal(vc, a[1].T) })
	ratSet("Set", func(vc *VC, st *State, a []Val) Term { return vc.ld(st, a[1]) })
	ratSet("Add", func(vc *VC, st *State, a []Val) Term { return mk(app("+", vc.ld(st, a[1]), vc.ld(st, a[2])), sortReal) })
	ratSet("Sub", func(vc *VC, st *State, a []Val) Term { return mk(app("-", vc.ld(st, a[1]), vc.ld(st, a[2])), sortReal) })
	ratSet("Mul", func(vc *VC, st *State, a []Val) Term { return mk(app("*", vc.ld(st, a[1]), vc.ld(st, a[2])), sortReal) })
	libTable[ratPfx+"Quo"] = func(vc *VC, fr *Frame, st *State, a []Val, at []types.Type, rt types.Type, pos token.Pos) Val {
		vc.usedLib("big.Rat.Quo")
		vc.nilChecks(fr, st, pos, a...)
		x, y := vc.ld(st, a[1]), vc.ld(st, a[2])
		vc.oblige(st, fr, "safe.div", "big.Rat.Quo", tNot(tEq(y, mk("0.0", sortReal))), "big.Rat division by zero", pos)
		vc.storePlace(st, a[0].P, vc.define("rat", mk(app("/", x, y), sortReal)))
		return a[0]
	}
	libTable[ratPfx+"Cmp"] = func(vc *VC, fr *Frame, st *State, a []Val, at []types.Type, rt types.Type, pos token.Pos) Val {
		vc.usedLib("big.Rat.Cmp")
		vc.nilChecks(fr, st, pos, a...)
		x, y := vc.ld(st, a[0]), vc.ld(st, a[1])
		return Val{T: tIte(mk(app("<", x, y), sortBool), vc.intConst(newBig(-1), 64), tIte(mk(app(">", x, y), sortBool), vc.intConst(newBig(1), 64), vc.intConst(newBig(0), 64)))}
	}
	libTable[ratPfx+"Sign"] = func(vc *VC, fr *Frame, st *State, a []Val, at []types.Type, rt types.Type, pos token.Pos) Val {
		vc.usedLib("big.Rat.Sign")
		vc.nilChecks(fr, st, pos, a...)
		x := vc.ld(st, a[0])
		return Val{T: tIte(mk("(< "+x.S+" 0.0)", sortBool), vc.intConst(newBig(-1), 64), tIte(mk("(> "+x.S+" 0.0)", sortBool), vc.intConst(newBig(1), 64), vc.intConst(newBig(0), 64)))}
	}
	// Float64: nearest float64; modelled as a value within relative error 2^-53 (same sign, exact for 0)
	libTable[ratPfx+"Float64"] = func(vc *VC, fr *Frame, st *State, a []Val, at []types.Type, rt types.Type, pos token.Pos) Val {
		vc.usedLib("big.Rat.Float64 (relative error <= 2^-53 envelope)")
		vc.nilChecks(fr, st, pos, a...)
		x := vc.ld(st, a[0])
		if vc.mode != ModeMath {
			return vc.freshVal(st, "f64", rt)
		}
		r := vc.declFresh("f64", sortReal)
		eps := "(/ 1.0 9007199254740992.0)"
		vc.assume(st, mk(fmt.Sprintf("(and (=> (>= %s 0.0) (and (<= (* %s (- 1.0 %s)) %s) (<= %s (* %s (+ 1.0 %s))))) (=> (< %s 0.0) (and (<= (* %s (+ 1.0 %s)) %s) (<= %s (* %s (- 1.0 %s))))))",
			x.S, x.S, eps, r.S, r.S, x.S, eps, x.S, x.S, eps, r.S, r.S, x.S, eps), sortBool))
		ex := vc.declFresh("f64exact", sortBool)
		vc.assume(st, tImp(ex, tEq(r, x)))
		return Val{Tup: []Val{{T: r}, {T: ex}}}
	}
	libTable["math.Floor"] = func(vc *VC, fr *Frame, st *State, a []Val, at []types.Type, rt types.Type, pos token.Pos) Val {
		vc.usedLib("math.Floor")
		if vc.mode != ModeMath {
			return vc.freshVal(st, "floor", rt)
		}
		return Val{T: mk("(to_real (to_int "+a[0].T.S+"))", sortReal)}
	}
	libTable["math.Ceil"] = func(vc *VC, fr *Frame, st *State, a []Val, at []types.Type, rt types.Type, pos token.Pos) Val {
		vc.usedLib("math.Ceil")
		if vc.mode != ModeMath {
			return vc.freshVal(st, "ceil", rt)
		}
		return Val{T: mk("(- (to_real (to_int (- "+a[0].T.S+"))))", sortReal)}
	}

	libTable[bigPfx+"SetBytes"] = func(vc *VC, fr *Frame, st *State, a []Val, at []types.Type, rt types.Type, pos token.Pos) Val {
		vc.usedLib("big.Int.SetBytes")
		vc.nilChecks(fr, st, pos, a[0])
		s := a[1].T
		arr := tSelect(vc.heapGet(st.heap, vc.arrComp(types.Typ[types.Uint8])), mk("(sl-ref "+s.S+")", sortRef))
		bts := vc.bytesOf(arr, mk("(sl-off "+s.S+")", vc.idxSort()), mk("(sl-len "+s.S+")", vc.idxSort()))
		vc.needBeval = true
		vc.storePlace(st, a[0].P, mk("(beval "+bts.S+")", sortInt))
		return a[0]
	}
	libTable[bigPfx+"Bytes"] = func(vc *VC, fr *Frame, st *State, a []Val, at []types.Type, rt types.Type, pos token.Pos) Val {
		vc.usedLib("big.Int.Bytes")
		vc.nilChecks(fr, st, pos, a[0])
		x := vc.ld(st, a[0])
		v := vc.freshVal(st, "bigbytes", rt)
		// fresh, non-nil, and its content is the encoding of |x|
		vc.assume(st, tNot(tEq(mk("(sl-ref "+v.T.S+")", sortRef), mk("0", sortRef))))
		arr := tSelect(vc.heapGet(st.heap, vc.arrComp(types.Typ[types.Uint8])), mk("(sl-ref "+v.T.S+")", sortRef))
		bts := vc.bytesOf(arr, mk("(sl-off "+v.T.S+")", vc.idxSort()), mk("(sl-len "+v.T.S+")", vc.idxSort()))
		vc.assume(st, tEq(bts, mk(fmt.Sprintf("(beenc (ite (>= %s 0) %s (- %s)))", x.S, x.S, x.S), &Sort{K: SOpaque, Name: "Bytes"})))
		return v
	}
	libTable[bigPfx+"Sign"] = func(vc *VC, fr *Frame, st *State, a []Val, at []types.Type, rt types.Type, pos token.Pos) Val {
		vc.usedLib("big.Int.Sign")
		vc.nilChecks(fr, st, pos, a[0])
		x := vc.ld(st, a[0])
		return Val{T: tIte(mk("(> "+x.S+" 0)", sortBool), vc.intConst(newBig(1), 64), tIte(mk("(< "+x.S+" 0)", sortBool), vc.intConst(newBig(-1), 64), vc.intConst(newBig(0), 64)))}
	}
	libTable[bigPfx+"Cmp"] = func(vc *VC, fr *Frame, st *State, a []Val, at []types.Type, rt types.Type, pos token.Pos) Val {
		vc.usedLib("big.Int.Cmp")
		vc.nilChecks(fr, st, pos, a[0], a[1])
		x, y := vc.ld(st, a[0]), vc.ld(st, a[1])
		return Val{T: tIte(mk(app("<", x, y), sortBool), vc.intConst(newBig(-1), 64), tIte(mk(app(">", x, y), sortBool), vc.intConst(newBig(1), 64), vc.intConst(newBig(0), 64)))}
	}
	libTable["math/big.NewInt"] = func(vc *VC, fr *Frame, st *State, a []Val, at []types.Type, rt types.Type, pos token.Pos) Val {
		vc.usedLib("big.NewInt")
		var v Term
		if vc.mode == ModeMath {
			v = a[0].T
		} else {
			v = mk(fmt.Sprintf("(ite (bvslt %s (_ bv0 64)) (- (bv2nat (bvneg %s))) (bv2nat %s))", a[0].T.S, a[0].T.S, a[0].T.S), sortInt)
		}
		return vc.newObject(st, derefType(rt), v)
	}
	libTable[bigPfx+"SetUint64"] = func(vc *VC, fr *Frame, st *State, a []Val, at []types.Type, rt types.Type, pos token.Pos) Val {
		vc.usedLib("big.Int.SetUint64")
		vc.nilChecks(fr, st, pos, a[0])
		v := a[1].T
		if vc.mode == ModeBV {
			v = mk("(bv2nat "+v.S+")", sortInt)
		}
		vc.storePlace(st, a[0].P, v)
		return a[0]
	}
	libTable[bigPfx+"SetInt64"] = func(vc *VC, fr *Frame, st *State, a []Val, at []types.Type, rt types.Type, pos token.Pos) Val {
		vc.usedLib("big.Int.SetInt64")
		vc.nilChecks(fr, st, pos, a[0])
		v := a[1].T
		if vc.mode == ModeBV {
			v = mk(fmt.Sprintf("(ite (bvslt %s (_ bv0 64)) (- (bv2nat (bvneg %s))) (bv2nat %s))", v.S, v.S, v.S), sortInt)
		}
		vc.storePlace(st, a[0].P, v)
		return a[0]
	}
	libTable[bigPfx+"Uint64"] = func(vc *VC, fr *Frame, st *State, a []Val, at []types.Type, rt types.Type, pos token.Pos) Val {
		vc.usedLib("big.Int.Uint64")
		vc.nilChecks(fr, st, pos, a[0])
		x := vc.ld(st, a[0])
		if vc.mode == ModeMath {
			r := vc.declFresh("big!u64", sortInt)
			vc.assume(st, mk(fmt.Sprintf("(and (<= 0 %s) (<= %s 18446744073709551615) (=> (and (<= 0 %s) (<= %s 18446744073709551615)) (= %s %s)))", r.S, r.S, x.S, x.S, r.S, x.S), sortBool))
			return Val{T: r}
		}
		return Val{T: vc.declFresh("big!u64", sortBV(64))}
	}
	libTable[bigPfx+"IsUint64"] = func(vc *VC, fr *Frame, st *State, a []Val, at []types.Type, rt types.Type, pos token.Pos) Val {
		vc.usedLib("big.Int.IsUint64")
		vc.nilChecks(fr, st, pos, a[0])
		x := vc.ld(st, a[0])
		return Val{T: mk(fmt.Sprintf("(and (<= 0 %s) (<= %s 18446744073709551615))", x.S, x.S), sortBool)}
	}
	libTable[bigPfx+"BitLen"] = func(vc *VC, fr *Frame, st *State, a []Val, at []types.Type, rt types.Type, pos token.Pos) Val {
		vc.usedLib("big.Int.BitLen")
		vc.nilChecks(fr, st, pos, a[0])
		r := vc.freshVal(st, "big!bitlen", types.Typ[types.Int])
		x := vc.ld(st, a[0])
		if vc.mode == ModeMath {
			vc.assume(st, mk(fmt.Sprintf("(and (<= 0 %s) (= (= %s 0) (= %s 0)))", r.T.S, r.T.S, x.S), sortBool))
		} else {
			vc.assume(st, mk(fmt.Sprintf("(and (bvsle (_ bv0 64) %s) (= (= %s (_ bv0 64)) (= %s 0)))", r.T.S, r.T.S, x.S), sortBool))
		}
		return r
	}
}

func (vc *VC) nilChecks(fr *Frame, st *State, pos token.Pos, vs ...Val) {
	for _, v := range vs {
		if v.P != nil {
			vc.nilCheck(fr, st, v.P, pos)
		}
	}
}

// newObject allocates a fresh heap object of type t holding value v and returns the pointer.
func (vc *VC) newObject(st *State, t types.Type, v Term) Val {
	ref := st.top
	st.top = vc.define("top", mk(fmt.Sprintf("(+ %s 1)", ref.S), sortRef))
	comp := vc.ptrComp(t)
	p := &Place{Kind: BPtr, Comp: comp, Ref: ref, Root: t, Typ: t}
	vc.setRoot(st, p, v)
	vc.initAux(st, t, ref)
	return Val{P: p}
}

// preludeText returns the fixed SMT prelude for a query.
func (vc *VC) preludeText() string {
	var b strings.Builder
	is := vc.idxSort().Name
	b.WriteString("(declare-datatypes ((Slice 0)) (((mk-slice (sl-ref Int) (sl-off " + is + ") (sl-len " + is + ") (sl-cap " + is + ")))))\n")
	b.WriteString("(declare-datatypes ((Iface 0)) (((mk-iface (ityp Int) (iref Int)))))\n")
	if vc.mode == ModeBV {
		b.WriteString("(define-fun wf-slice ((s Slice)) Bool (and (<= 0 (sl-ref s)) (bvule (sl-len s) (sl-cap s)) (bvult (sl-cap s) #x4000000000000000) (bvult (sl-off s) #x4000000000000000) (=> (= (sl-ref s) 0) (= (sl-cap s) (_ bv0 64)))))\n")
	} else {
		b.WriteString("(define-fun wf-slice ((s Slice)) Bool (and (<= 0 (sl-ref s)) (<= 0 (sl-len s)) (<= (sl-len s) (sl-cap s)) (< (sl-cap s) 4611686018427387904) (<= 0 (sl-off s)) (< (sl-off s) 4611686018427387904) (=> (= (sl-ref s) 0) (= (sl-cap s) 0))))\n")
	}
	if vc.needBytes {
		b.WriteString("(declare-sort Bytes 0)\n")
		b.WriteString("(declare-fun bytes-of ((Array " + is + " " + vc.intSort(8).Name + ") " + is + " " + is + ") Bytes)\n")
		b.WriteString("(declare-const bytes-nil Bytes)\n")
		// beval: the unsigned big-endian integer a byte string denotes (big.Int.SetBytes); beenc: the minimal
		// big-endian encoding of a natural number (big.Int.Bytes)
		if vc.needToHash {
			b.WriteString("(declare-fun tohash32 (Bytes) Bytes)\n")
		}
		b.WriteString("(declare-fun beval (Bytes) Int)\n(declare-fun beenc (Int) Bytes)\n")
		b.WriteString("(assert (forall ((x Bytes)) (! (>= (beval x) 0) :pattern ((beval x)))))\n")
		b.WriteString("(assert (forall ((n Int)) (! (=> (>= n 0) (= (beval (beenc n)) n)) :pattern ((beenc n)))))\n")
		if vc.needBeval {
			// the empty byte string: whatever array it is read from; its value is 0
			b.WriteString("(assert (forall ((a (Array " + is + " " + vc.intSort(8).Name + ")) (o " + is + ")) (! (= (bytes-of a o " + vc.idxLit(0).S + ") bytes-nil) :pattern ((bytes-of a o " + vc.idxLit(0).S + ")))))\n")
			b.WriteString("(assert (= (beval bytes-nil) 0))\n")
			if vc.needPadLemma && vc.mode == ModeMath {
				// a store outside a window does not change the byte string read through the window
				b.WriteString("(assert (forall ((a (Array Int Int)) (i Int) (v Int) (o Int) (l Int)) (! (=> (or (< i o) (>= i (+ o l))) (= (bytes-of (store a i v) o l) (bytes-of a o l))) :pattern ((bytes-of (store a i v) o l)))))\n")
			}
		}
	}
	if vc.needStr {
		b.WriteString("(declare-sort Str 0)\n")
		if vc.needDecVal {
			b.WriteString("(declare-fun dec-val (Str) Real)\n(declare-fun dec-valid (Str) Bool)\n")
		}
		b.WriteString("(declare-fun str-len (Str) " + is + ")\n")
		if vc.mode == ModeBV {
			b.WriteString("(declare-fun str-at (Str (_ BitVec 64)) (_ BitVec 8))\n")
		} else {
			b.WriteString("(declare-fun str-at (Str Int) Int)\n")
		}
		b.WriteString("(declare-fun str-cat (Str Str) Str)\n(declare-fun str-lt (Str Str) Bool)\n")
		b.WriteString("(declare-fun str-sub (Str " + is + " " + is + ") Str)\n")
		if vc.needBytes {
			// the byte content of a string; injective (the content determines the string)
			b.WriteString("(declare-fun str-bytes (Str) Bytes)\n")
			b.WriteString("(assert (forall ((a Str) (b Str)) (! (=> (= (str-bytes a) (str-bytes b)) (= a b)) :pattern ((str-bytes a) (str-bytes b)))))\n")
		}
	}
	return b.String()
}

// digitAxioms: the theory of decimal digit strings used by the formatting models (big.Int.String, strings.Repeat of
// "0", %s-only Sprintf). decstr n is the numeral of n >= 0, zeros k is k zero digits, dv the rational value of a
// numeral with optional sign and decimal point, isdig: digits only. Emitted after the string literals are declared.
func (vc *VC) digitAxioms() string {
	if !vc.needDigits {
		return ""
	}
	var b strings.Builder
	b.WriteString("(declare-fun dv (Str) Real)\n(declare-fun dvalid (Str) Bool)\n(declare-fun dnumeral (Str) Bool)\n(declare-fun isdig (Str) Bool)\n(declare-fun decstr (Int) Str)\n(declare-fun zeros (Int) Str)\n(declare-fun dpow10u (Int) Int)\n")
	b.WriteString("(define-fun dpow10 ((d Int)) Int ")
	p := "1"
	for k := 0; k <= 20; k++ {
		fmt.Fprintf(&b, "(ite (= d %d) %s ", k, p)
		p += "0"
	}
	b.WriteString("(dpow10u d)" + strings.Repeat(")", 21) + ")\n")
	lenOf := func(s string) string {
		if vc.mode == ModeBV {
			return "(bv2nat (str-len " + s + "))"
		}
		return "(str-len " + s + ")"
	}
	kInt := "k"
	if vc.mode == ModeBV {
		kInt = "(bv2nat k)"
	}
	zero, dot, minus, empty := vc.strLits["0"], vc.strLits["."], vc.strLits["-"], vc.strLits[""]
	b.WriteString("(assert (forall ((n Int)) (! (=> (>= n 0) (and (= (dv (decstr n)) (to_real n)) (isdig (decstr n)))) :pattern ((decstr n)))))\n")
	b.WriteString("(assert (forall ((k Int)) (! (and (isdig (zeros k)) (= (dv (zeros k)) 0.0)) :pattern ((zeros k)))))\n")
	// a numeral has at least one digit; lengths are Go string lengths
	if vc.mode == ModeBV {
		b.WriteString("(assert (forall ((n Int)) (! (and (bvuge (str-len (decstr n)) (_ bv1 64)) (bvult (str-len (decstr n)) #x4000000000000000)) :pattern ((decstr n)))))\n")
	} else {
		b.WriteString("(assert (forall ((n Int)) (! (and (<= 1 (str-len (decstr n))) (< (str-len (decstr n)) 4611686018427387904)) :pattern ((decstr n)))))\n")
	}
	if zero.S != "" {
		fmt.Fprintf(&b, "(assert (and (isdig %s) (= (dv %s) 0.0)))\n", zero.S, zero.S)
	}
	// leading zeros do not change the value
	b.WriteString("(assert (forall ((k Int) (s Str)) (! (=> (isdig s) (and (= (dv (str-cat (zeros k) s)) (dv s)) (isdig (str-cat (zeros k) s)))) :pattern ((str-cat (zeros k) s)))))\n")
	// splitting a numeral at k: value(prefix) * 10^(length of the suffix) + value(suffix) = value
	z := vc.idxLit(0).S
	fmt.Fprintf(&b, "(assert (forall ((s Str) (k %s)) (! (=> (isdig s) (and (isdig (str-sub s %s k)) (isdig (str-sub s k (str-len s))) (= (+ (* (dv (str-sub s %s k)) (to_real (dpow10 (- %s %s)))) (dv (str-sub s k (str-len s)))) (dv s)))) :pattern ((str-sub s %s k)))))\n",
		vc.idxSort().Name, z, z, lenOf("s"), kInt, z)
	// the whole string as a substring of itself
	fmt.Fprintf(&b, "(assert (forall ((s Str) (k %s)) (! (=> (= k (str-len s)) (= (str-sub s %s k) s)) :pattern ((str-sub s %s k)))))\n", vc.idxSort().Name, z, z)
	if dot.S != "" {
		// integer part, point, fraction
		fmt.Fprintf(&b, "(assert (forall ((a Str) (f Str)) (! (=> (and (isdig a) (isdig f)) (= (dv (str-cat a (str-cat %s f))) (+ (dv a) (/ (dv f) (to_real (dpow10 %s)))))) :pattern ((str-cat a (str-cat %s f))))))\n", dot.S, lenOf("f"), dot.S)
	}
	// what big.ParseFloat accepts (the part of its grammar the formatter can produce): an unsigned numeral is a
	// non-empty digit string, or digits '.' digits with at least one digit in total; an optional '-' in front
	b.WriteString("(assert (forall ((s Str)) (! (=> (and (isdig s) (not (= (str-len s) " + z + "))) (dnumeral s)) :pattern ((isdig s)))))\n")
	if dot.S != "" {
		fmt.Fprintf(&b, "(assert (forall ((a Str) (f Str)) (! (=> (and (isdig a) (isdig f) (not (and (= (str-len a) %s) (= (str-len f) %s)))) (dnumeral (str-cat a (str-cat %s f)))) :pattern ((str-cat a (str-cat %s f))))))\n", z, z, dot.S, dot.S)
	}
	b.WriteString("(assert (forall ((s Str)) (! (=> (dnumeral s) (dvalid s)) :pattern ((dnumeral s)))))\n")
	if minus.S != "" {
		fmt.Fprintf(&b, "(assert (forall ((s Str)) (! (and (= (dv (str-cat %s s)) (- (dv s))) (=> (dnumeral s) (dvalid (str-cat %s s)))) :pattern ((str-cat %s s)))))\n", minus.S, minus.S, minus.S)
	}
	if empty.S != "" {
		fmt.Fprintf(&b, "(assert (forall ((s Str)) (! (= (str-cat %s s) s) :pattern ((str-cat %s s)))))\n", empty.S, empty.S)
	}
	return b.String()
}

func (vc *VC) libPrelude() string {
	var b strings.Builder
	b.WriteString(vc.digitAxioms())
	b.WriteString("(declare-fun exp256 ((_ BitVec 256) (_ BitVec 256)) (_ BitVec 256))\n")
	if vc.needBitLen {
		// bit length of a 256-bit word as ite chain over the leading byte position and its leading bit
		b.WriteString("(define-fun bitlen8 ((b (_ BitVec 8))) (_ BitVec 64) (ite (bvuge b #x80) (_ bv8 64) (ite (bvuge b #x40) (_ bv7 64) (ite (bvuge b #x20) (_ bv6 64) (ite (bvuge b #x10) (_ bv5 64) (ite (bvuge b #x08) (_ bv4 64) (ite (bvuge b #x04) (_ bv3 64) (ite (bvuge b #x02) (_ bv2 64) (ite (bvuge b #x01) (_ bv1 64) (_ bv0 64))))))))))\n")
		b.WriteString("(define-fun bitlen256 ((z (_ BitVec 256))) (_ BitVec 64) ")
		var close strings.Builder
		for i := 31; i >= 0; i-- {
			fmt.Fprintf(&b, "(ite (not (= ((_ extract %d %d) z) #x00)) (bvadd (_ bv%d 64) (bitlen8 ((_ extract %d %d) z))) ", 8*i+7, 8*i, 8*i, 8*i+7, 8*i)
			close.WriteString(")")
		}
		b.WriteString("(_ bv0 64)" + close.String() + ")\n")
	}
	if vc.needBE {
		// be256 arr off len: big-endian value of the last min(len,32) bytes of arr[off, off+len)
		b.WriteString("(define-fun be256 ((a (Array (_ BitVec 64) (_ BitVec 8))) (off (_ BitVec 64)) (len (_ BitVec 64))) (_ BitVec 256) (concat")
		for k := 31; k >= 0; k-- {
			fmt.Fprintf(&b, " (ite (bvult (_ bv%d 64) len) (select a (bvsub (bvadd off len) (_ bv%d 64))) #x00)", k, k+1)
		}
		b.WriteString("))\n")
	}
	if vc.needWTS {
		b.WriteString("(define-fun wts-n ((len (_ BitVec 64))) (_ BitVec 64) (ite (bvult len (_ bv32 64)) len (_ bv32 64)))\n")
		b.WriteString("(define-fun wts-byte ((z (_ BitVec 256)) (i (_ BitVec 64))) (_ BitVec 8) ((_ extract 7 0) (bvlshr z (bvmul (_ bv8 256) ((_ zero_extend 192) i)))))\n")
	}
	return b.String()
}

// bigLit: the literal value of a big.Int term when it is syntactically determined (a literal, or a load of a
// package constant / freshly built big.NewInt(c) through stores to provably different references).
func (vc *VC) bigLit(t Term) (int64, bool) {
	s := vc.resolve(t.S)
	if v, ok := litValue(mk(s, nil)); ok {
		return v, true
	}
	if strings.HasPrefix(s, "(select ") {
		parts := splitSexp(s[1 : len(s)-1])
		if len(parts) == 3 && strings.HasPrefix(parts[1], "|P:math/big.Int!e") {
			if k, ok := vc.bigConsts[parts[2]]; ok {
				return k, true
			}
		}
	}
	return 0, false
}
