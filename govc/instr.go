package main

import (
	"fmt"
	"go/constant"
	"go/token"
	"go/types"
	"math/big"
	"strings"

	"golang.org/x/tools/go/ssa"
)

// operand evaluates an SSA value used as operand in frame fr.
func (vc *VC) operand(fr *Frame, st *State, v ssa.Value) Val {
	if x, ok := fr.vals[v]; ok {
		return x
	}
	switch c := v.(type) {
	case *ssa.Const:
		return vc.constVal(c)
	case *ssa.Global:
		return vc.globalPlace(c)
	case *ssa.Function:
		f := vc.funcConst(c)
		if st != nil {
			vc.assume(st, tNot(tEq(f, vc.zeroOfSort(f.T, nil))))
		}
		return Val{T: f}
	case *ssa.Builtin:
		return Val{T: vc.declFresh("builtin", vc.opaqueSort("Fn"))}
	case *ssa.FreeVar:
		if fr.freeVar != nil {
			if x, ok := fr.freeVar[c.Name()]; ok {
				return x
			}
		}
		x := vc.freshVal(st, "free!"+c.Name(), c.Type())
		if fr.freeVar == nil {
			fr.freeVar = map[string]Val{}
		}
		fr.freeVar[c.Name()] = x
		return x
	}
	vc.errorf("%s: operand %s (%T) used before definition", funcKey(fr.fn), v.Name(), v)
	x := vc.freshVal(st, "undef", v.Type())
	fr.vals[v] = x
	return x
}

func (vc *VC) funcConst(f *ssa.Function) Term {
	s := vc.opaqueSort("Fn")
	name := smtIdent("fn!" + fnPkgPath(f) + "." + funcKey(f))
	if !vc.uf[name] {
		vc.uf[name] = true
		vc.constDecls = append(vc.constDecls, fmt.Sprintf("(declare-const %s Fn)", name))
		if vc.fnConsts == nil {
			vc.fnConsts = map[string]*Contract{}
		}
		vc.fnConsts[name] = vc.P.contractOf(f)
		// needswrite(f): the contract of f demands a non-static context (a requires clause labelled
		// "notstatic"); known for every function under contract, unknown otherwise
		if con := vc.P.contractOf(f); con != nil {
			nw := "false"
			for _, r := range con.Requires {
				if r.Label == "notstatic" {
					nw = "true"
				}
			}
			vc.needsWriteAxioms = append(vc.needsWriteAxioms, fmt.Sprintf("(assert (= (needswrite %s) %s))", name, nw))
		}
	}
	return mk(name, s)
}

func (vc *VC) globalPlace(g *ssa.Global) Val {
	t := derefType(g.Type())
	comp := vc.globalComp(g)
	if vc.P.isConstGlobal(g) {
		comp = "GC:" + strings.TrimPrefix(comp, "G:")
		vc.registerComp(comp, vc.sortOf(t))
		if !vc.sentinelSeen[comp] {
			vc.sentinelSeen[comp] = true
			if vc.P.isNonNilSentinel(g) {
				c := vc.epochGet(vc.constEpoch, comp)
				vc.sentinels = append(vc.sentinels, c)
			}
			if k, ok := vc.P.bigIntConst(g); ok && isPointer(t) && isBigInt(derefType(t)) {
				c := vc.epochGet(vc.constEpoch, comp)
				vc.bigConsts[c.S] = k
			}
		}
	}
	return Val{P: &Place{Kind: BGlobal, Comp: comp, Root: t, Typ: t}}
}

func (vc *VC) constVal(c *ssa.Const) Val {
	t := c.Type()
	if c.Value == nil {
		// zero value / nil
		if isPointer(t) {
			return vc.ptrVal(mk("0", sortRef), t)
		}
		return Val{T: vc.zeroOf(t)}
	}
	switch {
	case isBool(t):
		if constant.BoolVal(c.Value) {
			return Val{T: tTrue}
		}
		return Val{T: tFalse}
	case isString(t):
		return Val{T: vc.strLit(constant.StringVal(c.Value))}
	case isFloat(t):
		if vc.mode == ModeMath {
			r, ok := new(big.Rat).SetString(c.Value.ExactString())
			if ok {
				return Val{T: realLit(r)}
			}
		}
		return Val{T: vc.declFresh("fconst", vc.sortOf(t))}
	}
	if bits, _, ok := intInfo(t); ok {
		iv, ok2 := constant.Int64Val(constant.ToInt(c.Value))
		var b *big.Int
		if ok2 {
			b = big.NewInt(iv)
		} else {
			b, _ = new(big.Int).SetString(constant.ToInt(c.Value).ExactString(), 10)
		}
		return Val{T: vc.intConst(b, bits)}
	}
	vc.note("const of type " + typeKey(t))
	return Val{T: vc.declFresh("const", vc.sortOf(t))}
}

func (vc *VC) intConst(b *big.Int, bits int) Term {
	if vc.mode == ModeBV {
		return bvLit(b, bits)
	}
	return intLit(b)
}

func (vc *VC) setVal(fr *Frame, v ssa.Value, x Val) { fr.vals[v] = x }

// named introduces a named SMT constant for an SSA value (keeps scripts readable and linear).
func (vc *VC) named(fr *Frame, v ssa.Value, t Term) Term {
	if len(t.S) < 40 {
		return t
	}
	base := v.Name()
	if fr.depth > 0 {
		base = fmt.Sprintf("f%d.%s", fr.id, base)
	}
	return vc.define(base, t)
}

func (vc *VC) instr(fr *Frame, st *State, ins ssa.Instruction) {
	vc.curState = st
	switch x := ins.(type) {
	case *ssa.DebugRef:
		return
	case *ssa.Alloc:
		vc.alloc(fr, st, x)
	case *ssa.BinOp:
		a, b := vc.operand(fr, st, x.X), vc.operand(fr, st, x.Y)
		r := vc.binop(fr, st, x.Op, a, b, x.X.Type(), x.Y.Type(), x.Type(), x.Pos())
		vc.setVal(fr, x, Val{T: vc.named(fr, x, r)})
	case *ssa.UnOp:
		vc.unop(fr, st, x)
	case *ssa.Store:
		addr := vc.operand(fr, st, x.Addr)
		val := vc.operand(fr, st, x.Val)
		if addr.P == nil {
			vc.errorf("store through non-place")
			return
		}
		vc.nilCheck(fr, st, addr.P, x.Pos())
		vc.storePlace(st, addr.P, vc.valTerm(val, x.Val.Type()))
	case *ssa.FieldAddr:
		base := vc.operand(fr, st, x.X)
		if base.P == nil {
			vc.errorf("FieldAddr on non-place")
			return
		}
		vc.nilCheck(fr, st, base.P, x.Pos())
		stT := derefType(x.X.Type())
		ft := stT.Underlying().(*types.Struct).Field(x.Field).Type()
		vc.setVal(fr, x, Val{P: base.P.extend(PathElem{Field: x.Field, Cont: stT}, ft)})
	case *ssa.Field:
		base := vc.operand(fr, st, x.X)
		stT := x.X.Type()
		t := vc.project(base.T, PathElem{Field: x.Field, Cont: stT})
		vc.setVal(fr, x, vc.mkVal(vc.named(fr, x, t), x.Type()))
	case *ssa.IndexAddr:
		vc.indexAddr(fr, st, x)
	case *ssa.Index:
		base := vc.operand(fr, st, x.X)
		idx := vc.operand(fr, st, x.Index)
		it := vc.toIdx(idx.T, x.Index.Type())
		if isString(x.X.Type()) {
			vc.boundsCheck(fr, st, it, mk("(str-len "+base.T.S+")", vc.idxSort()), x.Pos(), "index")
			vc.setVal(fr, x, Val{T: mk(fmt.Sprintf("(str-at %s %s)", base.T.S, it.S), vc.intSort(8))})
			return
		}
		if a, ok := x.X.Type().Underlying().(*types.Array); ok {
			vc.boundsCheck(fr, st, it, vc.idxLit(a.Len()), x.Pos(), "index")
			t := vc.project(base.T, PathElem{IsIndex: true, Index: it, Cont: x.X.Type()})
			vc.setVal(fr, x, vc.mkVal(vc.named(fr, x, t), x.Type()))
			return
		}
		vc.errorf("Index on %s", x.X.Type())
	case *ssa.Slice:
		vc.sliceOp(fr, st, x)
	case *ssa.Phi:
		return
	case *ssa.Call:
		vc.call(fr, st, x, &x.Call, x)
	case *ssa.Defer:
		vc.deferCall(fr, st, x)
	case *ssa.RunDefers:
		vc.runDefers(fr, st, x)
	case *ssa.Go:
		vc.note("go statement dropped (sequential semantics only): " + x.Call.Value.Name())
		if c := x.Call.StaticCallee(); c != nil && isEffectFree(c.String()) {
			// a goroutine running a function on the effect-free list touches nothing the contracts speak about
			break
		}
		if c := x.Call.StaticCallee(); c != nil {
			// ... and so does one whose contract says "modifies nothing"
			if con := vc.P.contractOf(c); con != nil && con.HasMod && len(con.Modifies) == 0 {
				con.Used = true
				vc.usedContracts[con.Pkg+"::"+con.Func] = true
				if con.opt("trusted") {
					vc.trusted[con.Pkg+"::"+con.Func] = true
				}
				break
			}
		}
		vc.havocAll(st)
	case *ssa.Return:
		var rs []Val
		for _, r := range x.Results {
			rs = append(rs, vc.operand(fr, st, r))
		}
		fr.exits = append(fr.exits, retInfo{st: st, results: rs, pos: x.Pos()})
	case *ssa.If:
		c := vc.operand(fr, st, x.Cond).T
		b := x.Block()
		vc.addEdge(fr, b, b.Succs[0], c, st)
		if b.Succs[1] == b.Succs[0] {
			vc.addEdge(fr, b, b.Succs[1], tNot(c), st)
		} else {
			vc.addEdge(fr, b, b.Succs[1], tNot(c), st)
		}
	case *ssa.Jump:
		b := x.Block()
		vc.addEdge(fr, b, b.Succs[0], tTrue, st)
	case *ssa.Panic:
		allowed := fr.contract != nil && fr.contract.opt("maypanic")
		if !allowed {
			vc.oblige(st, fr, "safe.panic", "", tFalse, "explicit panic is unreachable", x.Pos())
		}
		if allowed && fr.depth == 0 {
			// exceptional postconditions: "ensures [label!onpanic] e" must hold in the state in which an explicit
			// panic of this function is raised (callers up the stack recover and keep running on that state)
			for _, e := range fr.contract.Ensures {
				if strings.HasSuffix(e.Label, "!onpanic") {
					t := vc.evalClause(fr, st, e, x.Block(), nil)
					vc.obligeNoAssume(st, fr, "onpanic", e.Label, t, e.Src)
				}
			}
		}
	case *ssa.Convert:
		vc.convert(fr, st, x)
	case *ssa.ChangeType:
		v := vc.operand(fr, st, x.X)
		if vc.sortOf(x.X.Type()).Name != vc.sortOf(x.Type()).Name {
			vc.note("ChangeType between different sorts " + typeKey(x.X.Type()) + " -> " + typeKey(x.Type()))
			vc.setVal(fr, x, vc.freshVal(st, x.Name(), x.Type()))
			return
		}
		if v.P != nil {
			// pointer type change: keep the place but retype
			np := *v.P
			np.Typ = derefType(x.Type())
			vc.setVal(fr, x, Val{P: &np})
			return
		}
		vc.setVal(fr, x, v)
	case *ssa.ChangeInterface:
		vc.setVal(fr, x, vc.operand(fr, st, x.X))
	case *ssa.MakeInterface:
		vc.makeInterface(fr, st, x)
	case *ssa.TypeAssert:
		vc.typeAssert(fr, st, x)
	case *ssa.Extract:
		tv := vc.operand(fr, st, x.Tuple)
		if x.Index < len(tv.Tup) {
			vc.setVal(fr, x, tv.Tup[x.Index])
		} else {
			vc.errorf("extract from non-tuple")
		}
	case *ssa.MakeSlice:
		vc.makeSlice(fr, st, x)
	case *ssa.MakeMap:
		vc.makeMap(fr, st, x)
	case *ssa.MapUpdate:
		vc.mapUpdate(fr, st, x)
	case *ssa.Lookup:
		vc.lookup(fr, st, x)
	case *ssa.Range:
		vc.rangeInit(fr, st, x)
	case *ssa.Next:
		vc.rangeNext(fr, st, x)
	case *ssa.MakeClosure:
		// closure value: opaque function value; bindings are remembered for inlining
		t := vc.declFresh("closure", vc.opaqueSort("Fn"))
		vc.assume(st, tNot(tEq(t, vc.zeroOfSort(t.T, nil))))
		if cf, ok := x.Fn.(*ssa.Function); ok {
			if con := vc.P.contractOf(cf); con != nil {
				nw := "false"
				for _, r := range con.Requires {
					if r.Label == "notstatic" {
						nw = "true"
					}
				}
				vc.needNeedsWriteDecl()
				vc.assume(st, mk(fmt.Sprintf("(= (needswrite %s) %s)", t.S, nw), sortBool))
			}
		}
		vc.closures[t.S] = x
		var bs []Val
		for _, b := range x.Bindings {
			bs = append(bs, vc.operand(fr, st, b))
		}
		vc.closureBind[t.S] = bs
		vc.setVal(fr, x, Val{T: t})
	case *ssa.SliceToArrayPointer:
		vc.note("SliceToArrayPointer abstracted")
		vc.setVal(fr, x, vc.freshVal(st, x.Name(), x.Type()))
	case *ssa.Send, *ssa.Select, *ssa.MakeChan:
		vc.errorf("%s: channel operation outside the subset", funcKey(fr.fn))
		if v, ok := ins.(ssa.Value); ok {
			vc.setVal(fr, v, vc.freshVal(st, v.Name(), v.Type()))
		}
	default:
		vc.errorf("%s: unsupported instruction %T", funcKey(fr.fn), ins)
		if v, ok := ins.(ssa.Value); ok {
			vc.setVal(fr, v, vc.freshVal(st, v.Name(), v.Type()))
		}
	}
}

// ---------------------------------------------------------------- allocation

func (vc *VC) allocIsLocal(a *ssa.Alloc) bool {
	if !a.Heap {
		return vc.addrUsesLocal(a, 0)
	}
	return vc.addrUsesLocal(a, 0)
}

// addrUsesLocal: true if the address value is only used for loads, stores (as address), field/index
// address computation and calls to library-modelled or inlined/contracted functions (which never retain it).
func (vc *VC) addrUsesLocal(v ssa.Value, depth int) bool {
	if depth > 4 {
		return false
	}
	refs := v.Referrers()
	if refs == nil {
		return false
	}
	for _, r := range *refs {
		switch x := r.(type) {
		case *ssa.DebugRef:
		case *ssa.UnOp:
			if x.Op != token.MUL {
				return false
			}
		case *ssa.Store:
			if x.Val == v {
				return false
			}
		case *ssa.FieldAddr:
			if !vc.addrUsesLocal(x, depth+1) {
				return false
			}
		case *ssa.IndexAddr:
			if !vc.addrUsesLocal(x, depth+1) {
				return false
			}
		case *ssa.Call:
			callee := x.Call.StaticCallee()
			if callee == nil {
				return false
			}
			if !vc.calleeKeepsNoPointer(callee) {
				return false
			}
			// fluent library methods (big.Int/Rat/Float setters) return their receiver: the result is an alias
			if types.Identical(x.Type(), v.Type()) && len(x.Call.Args) > 0 && x.Call.Args[0] == v {
				if !vc.addrUsesLocal(x, depth+1) {
					return false
				}
			}
		case *ssa.Return:
			return false
		case *ssa.MakeClosure:
			// captured by a function literal that is only called or deferred right here (and inlined by the
			// engine): the cell stays local if the literal's own uses of it are local
			fn, ok := x.Fn.(*ssa.Function)
			if !ok || !vc.autoInline(fn) {
				return false
			}
			crefs := x.Referrers()
			if crefs == nil {
				return false
			}
			for _, cr := range *crefs {
				switch c := cr.(type) {
				case *ssa.DebugRef:
				case *ssa.Defer:
					if c.Call.Value != ssa.Value(x) {
						return false
					}
				case *ssa.Call:
					if c.Call.Value != ssa.Value(x) {
						return false
					}
				default:
					return false
				}
			}
			for i, b := range x.Bindings {
				if b == v && i < len(fn.FreeVars) {
					if !vc.addrUsesLocal(fn.FreeVars[i], depth+1) {
						return false
					}
				}
			}
		default:
			return false
		}
	}
	return true
}

func (vc *VC) calleeKeepsNoPointer(callee *ssa.Function) bool {
	full := callee.String()
	if libModel(full) != nil {
		return true
	}
	if c := vc.P.contractOf(callee); c != nil {
		return true
	}
	if vc.autoInline(callee) {
		return true
	}
	return false
}

func (vc *VC) alloc(fr *Frame, st *State, a *ssa.Alloc) {
	t := derefType(a.Type())
	if arr, ok := t.Underlying().(*types.Array); ok && !isU256(t) {
		// arrays live in the array heap so that they can be sliced
		ref := st.top
		st.top = vc.define("top", mk(fmt.Sprintf("(+ %s 1)", ref.S), sortRef))
		comp := vc.arrComp(arr.Elem())
		p := &Place{Kind: BArr, Comp: comp, Ref: ref, Root: arr.Elem(), Typ: t}
		vc.setRoot(st, p, vc.zeroOf(t))
		vc.setVal(fr, a, Val{P: p})
		return
	}
	if vc.allocIsLocal(a) && !isBigFloat(t) { // (a big.Float has auxiliary state keyed by its reference)
		comp := fmt.Sprintf("L:f%d.%s", fr.id, a.Name())
		vc.registerComp(comp, vc.sortOf(t))
		p := &Place{Kind: BLocal, Comp: comp, Root: t, Typ: t}
		st.heap.known[comp] = vc.zeroOf(t)
		vc.setVal(fr, a, Val{P: p})
		return
	}
	ref := st.top
	st.top = vc.define("top", mk(fmt.Sprintf("(+ %s 1)", ref.S), sortRef))
	comp := vc.ptrComp(t)
	p := &Place{Kind: BPtr, Comp: comp, Ref: ref, Root: t, Typ: t}
	vc.setRoot(st, p, vc.zeroOf(t))
	vc.initAux(st, t, ref)
	vc.setVal(fr, a, Val{P: p})
}

// initAux zero-initialises the auxiliary (precision, mode) components of a fresh big.Float.
func (vc *VC) initAux(st *State, t types.Type, ref Term) {
	if !isBigFloat(t) {
		return
	}
	for _, which := range []string{"prec", "mode"} {
		comp := "X:big.Float." + which
		vc.registerComp(comp, sortArray(sortRef, sortInt))
		h := vc.heapGet(st.heap, comp)
		st.heap.known[comp] = vc.define(comp, tStore(h, ref, mk("0", sortInt)))
		vc.written[comp] = true
	}
}

// ---------------------------------------------------------------- checks

func (vc *VC) nilCheck(fr *Frame, st *State, p *Place, pos token.Pos) {
	if p.Kind != BPtr && p.Kind != BArr {
		return
	}
	if len(p.Path) > 0 {
		return // checked when the root was first dereferenced
	}
	if _, ok := litValue(p.Ref); ok && p.Ref.S != "0" {
		return
	}
	if strings.HasPrefix(p.Ref.S, "|top") {
		return // freshly allocated
	}
	key := "nil:" + p.Ref.S
	if st.checked(key) {
		return
	}
	vc.oblige(st, fr, "safe.nil", "", tNot(tEq(p.Ref, mk("0", sortRef))), "nil dereference", pos)
	st.mark(key)
}

func (vc *VC) boundsCheck(fr *Frame, st *State, idx, n Term, pos token.Pos, what string) {
	var goal Term
	if vc.mode == ModeBV {
		// idx is a 64-bit value already converted with its own signedness: require 0 <= idx < n (signed view, n >= 0)
		goal = mk(fmt.Sprintf("(bvult %s %s)", idx.S, n.S), sortBool)
	} else {
		goal = mk(fmt.Sprintf("(and (<= 0 %s) (< %s %s))", idx.S, idx.S, n.S), sortBool)
	}
	if iv, ok := litValue(idx); ok {
		if nv, ok2 := litValue(n); ok2 && iv >= 0 && iv < nv {
			return
		}
	}
	vc.oblige(st, fr, "safe."+what, "", goal, what+" in range", pos)
}

// toIdx converts an integer term of Go type t to the index sort.
func (vc *VC) toIdx(x Term, t types.Type) Term {
	if vc.mode != ModeBV {
		return x
	}
	bits, signed, ok := intInfo(t)
	if !ok || bits == 64 {
		return x
	}
	if signed {
		return mk(fmt.Sprintf("((_ sign_extend %d) %s)", 64-bits, x.S), sortBV(64))
	}
	return mk(fmt.Sprintf("((_ zero_extend %d) %s)", 64-bits, x.S), sortBV(64))
}

func (vc *VC) indexAddr(fr *Frame, st *State, x *ssa.IndexAddr) {
	base := vc.operand(fr, st, x.X)
	idx := vc.operand(fr, st, x.Index)
	it := vc.toIdx(idx.T, x.Index.Type())
	switch u := x.X.Type().Underlying().(type) {
	case *types.Slice:
		s := base.T
		vc.boundsCheck(fr, st, it, mk("(sl-len "+s.S+")", vc.idxSort()), x.Pos(), "index")
		p := &Place{Kind: BArr, Comp: vc.arrComp(u.Elem()), Ref: mk("(sl-ref "+s.S+")", sortRef), Root: u.Elem(), Typ: u.Elem()}
		off := vc.idxAdd(mk("(sl-off "+s.S+")", vc.idxSort()), it)
		p.Path = []PathElem{{IsIndex: true, Index: vc.define(x.Name()+"!i", off), Cont: types.NewArray(u.Elem(), 0)}}
		vc.setVal(fr, x, Val{P: p})
	case *types.Pointer:
		if base.P == nil {
			vc.errorf("IndexAddr on non-place")
			return
		}
		at := u.Elem()
		arr, ok := at.Underlying().(*types.Array)
		if !ok {
			vc.errorf("IndexAddr on pointer to %s", at)
			return
		}
		vc.nilCheck(fr, st, base.P, x.Pos())
		vc.boundsCheck(fr, st, it, vc.idxLit(arr.Len()), x.Pos(), "index")
		vc.setVal(fr, x, Val{P: base.P.extend(PathElem{IsIndex: true, Index: it, Cont: at}, arr.Elem())})
	default:
		vc.errorf("IndexAddr on %s", x.X.Type())
	}
}

func (vc *VC) idxAdd(a, b Term) Term {
	if v, ok := litValue(b); ok && v == 0 {
		return a
	}
	if v, ok := litValue(a); ok && v == 0 {
		return b
	}
	if vc.mode == ModeBV {
		return mk(app("bvadd", a, b), sortBV(64))
	}
	return mk(app("+", a, b), sortInt)
}

func (vc *VC) idxSub(a, b Term) Term {
	if v, ok := litValue(b); ok && v == 0 {
		return a
	}
	if vc.mode == ModeBV {
		return mk(app("bvsub", a, b), sortBV(64))
	}
	return mk(app("-", a, b), sortInt)
}

func (vc *VC) idxLe(a, b Term) Term {
	if vc.mode == ModeBV {
		return mk(app("bvule", a, b), sortBool)
	}
	return mk(app("<=", a, b), sortBool)
}

func (vc *VC) idxLt(a, b Term) Term {
	if vc.mode == ModeBV {
		return mk(app("bvult", a, b), sortBool)
	}
	return mk(app("<", a, b), sortBool)
}

func (vc *VC) mkSlice(ref, off, ln, cp Term) Term {
	return mk(fmt.Sprintf("(mk-slice %s %s %s %s)", ref.S, off.S, ln.S, cp.S), sortSlice)
}

func (vc *VC) sliceOp(fr *Frame, st *State, x *ssa.Slice) {
	base := vc.operand(fr, st, x.X)
	is := vc.idxSort()
	var lo, hi, max Term
	hasLo, hasHi, hasMax := x.Low != nil, x.High != nil, x.Max != nil
	if hasLo {
		lo = vc.toIdx(vc.operand(fr, st, x.Low).T, x.Low.Type())
	} else {
		lo = vc.idxLit(0)
	}
	if hasHi {
		hi = vc.toIdx(vc.operand(fr, st, x.High).T, x.High.Type())
	}
	if hasMax {
		max = vc.toIdx(vc.operand(fr, st, x.Max).T, x.Max.Type())
	}
	switch u := x.X.Type().Underlying().(type) {
	case *types.Slice:
		s := base.T
		ln := mk("(sl-len "+s.S+")", is)
		cp := mk("(sl-cap "+s.S+")", is)
		if !hasHi {
			hi = ln
		}
		limit := cp
		if hasMax {
			limit = max
			vc.oblige(st, fr, "safe.slice", "", vc.idxLe(max, cp), "slice max within capacity", x.Pos())
		}
		// 0 <= lo <= hi <= cap   (unsigned compare in bv mode catches negatives)
		goal := tAnd(vc.idxLe(lo, hi), vc.idxLe(hi, limit))
		if vc.mode == ModeMath {
			goal = tAnd(mk(app("<=", mk("0", sortInt), lo), sortBool), goal)
		}
		vc.oblige(st, fr, "safe.slice", "", goal, "slice bounds in range", x.Pos())
		r := vc.mkSlice(mk("(sl-ref "+s.S+")", sortRef), vc.idxAdd(mk("(sl-off "+s.S+")", is), lo), vc.idxSub(hi, lo), vc.idxSub(limit, lo))
		vc.setVal(fr, x, Val{T: vc.named(fr, x, r)})
	case *types.Basic: // string
		s := base.T
		ln := mk("(str-len "+s.S+")", is)
		if !hasHi {
			hi = ln
		}
		goal := tAnd(vc.idxLe(lo, hi), vc.idxLe(hi, ln))
		if vc.mode == ModeMath {
			goal = tAnd(mk(app("<=", mk("0", sortInt), lo), sortBool), goal)
		}
		vc.oblige(st, fr, "safe.slice", "", goal, "string slice bounds in range", x.Pos())
		r := mk(fmt.Sprintf("(str-sub %s %s %s)", s.S, lo.S, hi.S), sortStr)
		rn := vc.named(fr, x, r)
		vc.assume(st, tEq(mk("(str-len "+rn.S+")", is), vc.idxSub(hi, lo)))
		vc.setVal(fr, x, Val{T: rn})
	case *types.Pointer:
		arr, ok := u.Elem().Underlying().(*types.Array)
		if !ok || base.P == nil {
			vc.errorf("slice of pointer to non-array")
			return
		}
		if base.P.Kind != BArr || len(base.P.Path) != 0 {
			vc.errorf("slicing an array that is not a separate array object (embedded arrays are outside the subset)")
			vc.setVal(fr, x, vc.freshVal(st, x.Name(), x.Type()))
			return
		}
		n := vc.idxLit(arr.Len())
		if !hasHi {
			hi = n
		}
		limit := n
		if hasMax {
			limit = max
		}
		goal := tAnd(vc.idxLe(lo, hi), vc.idxLe(hi, limit), vc.idxLe(limit, n))
		if vc.mode == ModeMath {
			goal = tAnd(mk(app("<=", mk("0", sortInt), lo), sortBool), goal)
		}
		if !(hasLo || hasHi || hasMax) {
			goal = tTrue
		}
		vc.nilCheck(fr, st, base.P, x.Pos())
		if goal.S != "true" {
			vc.oblige(st, fr, "safe.slice", "", goal, "array slice bounds in range", x.Pos())
		}
		r := vc.mkSlice(base.P.Ref, lo, vc.idxSub(hi, lo), vc.idxSub(limit, lo))
		vc.setVal(fr, x, Val{T: vc.named(fr, x, r)})
	default:
		vc.errorf("slice of %s", x.X.Type())
	}
}

func (vc *VC) makeSlice(fr *Frame, st *State, x *ssa.MakeSlice) {
	ln := vc.toIdx(vc.operand(fr, st, x.Len).T, x.Len.Type())
	cp := vc.toIdx(vc.operand(fr, st, x.Cap).T, x.Cap.Type())
	et := x.Type().Underlying().(*types.Slice).Elem()
	// len must be >= 0 and <= cap (run-time panic otherwise)
	if vc.mode == ModeBV {
		goal := tAnd(mk(fmt.Sprintf("(bvsge %s (_ bv0 64))", ln.S), sortBool), mk(fmt.Sprintf("(bvsle %s %s)", ln.S, cp.S), sortBool))
		vc.oblige(st, fr, "safe.makeslice", "", goal, "make: 0 <= len <= cap", x.Pos())
	} else {
		goal := mk(fmt.Sprintf("(and (<= 0 %s) (<= %s %s))", ln.S, ln.S, cp.S), sortBool)
		vc.oblige(st, fr, "safe.makeslice", "", goal, "make: 0 <= len <= cap", x.Pos())
	}
	ref := st.top
	st.top = vc.define("top", mk(fmt.Sprintf("(+ %s 1)", ref.S), sortRef))
	comp := vc.arrComp(et)
	p := &Place{Kind: BArr, Comp: comp, Ref: ref, Root: et}
	arrSort := sortArray(vc.idxSort(), vc.sortOf(et))
	vc.setRoot(st, p, mk(fmt.Sprintf("((as const %s) %s)", arrSort.Name, vc.zeroOf(et).S), arrSort))
	r := vc.mkSlice(ref, vc.idxLit(0), ln, cp)
	rn := vc.named(fr, x, r)
	vc.allocs = append(vc.allocs, allocRec{size: ln, elem: typeKey(et)})
	vc.setVal(fr, x, Val{T: rn})
}

// ---------------------------------------------------------------- unary, conversions

func (vc *VC) unop(fr *Frame, st *State, x *ssa.UnOp) {
	v := vc.operand(fr, st, x.X)
	switch x.Op {
	case token.MUL:
		if v.P == nil {
			vc.errorf("load through non-place %s", x.X.Name())
			vc.setVal(fr, x, vc.freshVal(st, x.Name(), x.Type()))
			return
		}
		vc.nilCheck(fr, st, v.P, x.Pos())
		t := vc.loadPlace(st, v.P)
		t = vc.named(fr, x, t)
		vc.assumeLoaded(st, t, x.Type())
		if v.P.Kind == BGlobal && isPointer(x.Type()) && vc.topEntry.T != nil {
			// what a global points to was allocated before this function was entered - for constant globals
			// always, for other globals as long as the function has not written the variable
			unwritten := strings.HasPrefix(v.P.Comp, "GC:")
			if !unwritten && vc.top != nil && vc.top.entrySt != nil {
				if e, ok := vc.top.entrySt.heap.known[v.P.Comp]; ok {
					if c, ok2 := st.heap.known[v.P.Comp]; ok2 && c.S == e.S {
						unwritten = true
					}
				}
			}
			if unwritten {
				vc.assume(st, mk(fmt.Sprintf("(< %s %s)", t.S, vc.topEntry.S), sortBool))
			}
		}
		vc.setVal(fr, x, vc.mkVal(t, x.Type()))
	case token.NOT:
		vc.setVal(fr, x, Val{T: tNot(v.T)})
	case token.SUB:
		if vc.mode == ModeBV && v.T.T.K == SBV {
			vc.setVal(fr, x, Val{T: mk("(bvneg "+v.T.S+")", v.T.T)})
		} else {
			vc.setVal(fr, x, Val{T: mk("(- "+v.T.S+")", v.T.T)})
		}
	case token.XOR:
		if vc.mode == ModeBV {
			vc.setVal(fr, x, Val{T: mk("(bvnot "+v.T.S+")", v.T.T)})
		} else {
			vc.note("bitwise complement in math mode abstracted")
			vc.setVal(fr, x, vc.freshVal(st, x.Name(), x.Type()))
		}
	case token.ARROW:
		vc.errorf("channel receive outside the subset")
		vc.setVal(fr, x, vc.freshVal(st, x.Name(), x.Type()))
	default:
		vc.errorf("unsupported unary op %s", x.Op)
	}
}

// assumeLoaded adds what is known about any value read from the heap: references are below top etc.
func (vc *VC) assumeLoaded(st *State, t Term, typ types.Type) {
	switch typ.Underlying().(type) {
	case *types.Slice, *types.Pointer, *types.Map, *types.Interface, *types.Chan:
		vc.assumeWF(st, t, typ)
	case *types.Basic:
		if vc.mode == ModeMath || isString(typ) {
			vc.assumeWF(st, t, typ)
		}
	case *types.Struct:
		vc.assumeWF(st, t, typ)
	case *types.Array:
		if isU256(typ) {
			vc.assumeWF(st, t, typ)
		}
	}
}

func (vc *VC) convert(fr *Frame, st *State, x *ssa.Convert) {
	v := vc.operand(fr, st, x.X)
	from, to := x.X.Type(), x.Type()
	fb, fs, fok := intInfo(from)
	tb, ts, tok := intInfo(to)
	switch {
	case fok && tok:
		vc.setVal(fr, x, Val{T: vc.named(fr, x, vc.convInt(fr, st, v.T, fb, fs, tb, ts, x.Pos()))})
	case isString(to) && isByteSlice(from):
		r := vc.declFresh("str!ofbytes", sortStr)
		vc.assume(st, tEq(mk("(str-len "+r.S+")", vc.idxSort()), mk("(sl-len "+v.T.S+")", vc.idxSort())))
		// content link: str-at r i = arr[off+i]
		arr := tSelect(vc.heapGet(st.heap, vc.arrComp(types.Typ[types.Uint8])), mk("(sl-ref "+v.T.S+")", sortRef))
		q := fmt.Sprintf("(forall ((i %s)) (! (=> %s (= (str-at %s i) (select %s %s))) :pattern ((str-at %s i))))",
			vc.idxSort().Name, vc.inRange("i", "(sl-len "+v.T.S+")"), r.S, arr.S, vc.idxAdd(mk("(sl-off "+v.T.S+")", vc.idxSort()), mk("i", vc.idxSort())).S, r.S)
		vc.assume(st, mk(q, sortBool))
		if len(vc.P.Ghosts) > 0 {
			// content abstraction: the string's bytes are the slice's bytes (strings as keys of ghost stores and maps)
			vc.needBytes, vc.needStr = true, true
			vc.assume(st, tEq(mk("(str-bytes "+r.S+")", &Sort{K: SOpaque, Name: "Bytes"}), vc.bytesOf(arr, mk("(sl-off "+v.T.S+")", vc.idxSort()), mk("(sl-len "+v.T.S+")", vc.idxSort()))))
		}
		vc.setVal(fr, x, Val{T: r})
	case isByteSlice(to) && isString(from):
		ref := st.top
		st.top = vc.define("top", mk(fmt.Sprintf("(+ %s 1)", ref.S), sortRef))
		ln := mk("(str-len "+v.T.S+")", vc.idxSort())
		comp := vc.arrComp(types.Typ[types.Uint8])
		arrS := sortArray(vc.idxSort(), vc.intSort(8))
		na := vc.declFresh("bytes!ofstr", arrS)
		q := fmt.Sprintf("(forall ((i %s)) (! (=> %s (= (select %s i) (str-at %s i))) :pattern ((select %s i))))",
			vc.idxSort().Name, vc.inRange("i", ln.S), na.S, v.T.S, na.S)
		vc.assume(st, mk(q, sortBool))
		p := &Place{Kind: BArr, Comp: comp, Ref: ref, Root: types.Typ[types.Uint8]}
		vc.setRoot(st, p, na)
		if len(vc.P.Ghosts) > 0 {
			// content abstraction used by ghost key-value stores
			vc.needBytes, vc.needStr = true, true
			vc.assume(st, tEq(vc.bytesOf(na, vc.idxLit(0), ln), mk("(str-bytes "+v.T.S+")", &Sort{K: SOpaque, Name: "Bytes"})))
		}
		vc.setVal(fr, x, Val{T: vc.named(fr, x, vc.mkSlice(ref, vc.idxLit(0), ln, ln))})
	case isFloat(to) && fok && vc.mode == ModeMath:
		// float64(int): exact below 2^53, otherwise rounded; modelled as an envelope
		r := vc.declFresh("f64!ofint", sortReal)
		iv := mk("(to_real "+v.T.S+")", sortReal)
		exact := mk(fmt.Sprintf("(=> (and (<= (- 9007199254740992) %s) (<= %s 9007199254740992)) (= %s %s))", v.T.S, v.T.S, r.S, iv.S), sortBool)
		env := mk(fmt.Sprintf("(and (<= (* %s (- 1.0 (/ 1.0 9007199254740992.0))) %s) (<= %s (* %s (+ 1.0 (/ 1.0 9007199254740992.0)))))", absReal(iv.S), absReal(r.S), absReal(r.S), absReal(iv.S)), sortBool)
		vc.assume(st, exact)
		vc.assume(st, env)
		vc.assume(st, mk(fmt.Sprintf("(= (>= %s 0.0) (>= %s 0.0))", r.S, iv.S), sortBool))
		vc.setVal(fr, x, Val{T: r})
	case fok == false && isFloat(from) && tok && vc.mode == ModeMath:
		// int(float): truncation toward zero when in range
		r := vc.declFresh("int!offloat", sortInt)
		f := v.T.S
		trunc := fmt.Sprintf("(ite (>= %s 0.0) (to_int %s) (- (to_int (- %s))))", f, f, f)
		lo, hi := intRange(tb, ts)
		vc.assume(st, mk(fmt.Sprintf("(=> (and (<= %s %s) (<= %s %s)) (= %s %s))", lo.S, trunc, trunc, hi.S, r.S, trunc), sortBool))
		vc.assume(st, mk(fmt.Sprintf("(and (<= %s %s) (<= %s %s))", lo.S, r.S, r.S, hi.S), sortBool))
		vc.setVal(fr, x, Val{T: r})
	default:
		if vc.sortOf(from).Name == vc.sortOf(to).Name && v.P == nil {
			vc.setVal(fr, x, v)
			return
		}
		vc.note("conversion " + typeKey(from) + " -> " + typeKey(to) + " abstracted")
		vc.setVal(fr, x, vc.freshVal(st, x.Name(), to))
	}
}

func absReal(s string) string { return fmt.Sprintf("(ite (>= %s 0.0) %s (- %s))", s, s, s) }

func (vc *VC) inRange(v, n string) string {
	if vc.mode == ModeBV {
		return fmt.Sprintf("(bvult %s %s)", v, n)
	}
	return fmt.Sprintf("(and (<= 0 %s) (< %s %s))", v, v, n)
}

func isByteSlice(t types.Type) bool {
	s, ok := t.Underlying().(*types.Slice)
	if !ok {
		return false
	}
	b, ok := s.Elem().Underlying().(*types.Basic)
	return ok && b.Kind() == types.Uint8
}

func (vc *VC) convInt(fr *Frame, st *State, v Term, fb int, fs bool, tb int, ts bool, pos token.Pos) Term {
	if vc.mode == ModeBV {
		switch {
		case tb == fb:
			return v
		case tb < fb:
			return mk(fmt.Sprintf("((_ extract %d 0) %s)", tb-1, v.S), sortBV(tb))
		case fs:
			return mk(fmt.Sprintf("((_ sign_extend %d) %s)", tb-fb, v.S), sortBV(tb))
		default:
			return mk(fmt.Sprintf("((_ zero_extend %d) %s)", tb-fb, v.S), sortBV(tb))
		}
	}
	// math mode: value-preserving unless out of range; then wraps
	lo, hi := intRange(tb, ts)
	flo, fhi := intRange(fb, fs)
	_ = flo
	_ = fhi
	fits := (fs == ts && tb >= fb) || (!fs && ts && tb > fb)
	if fits {
		return v
	}
	if vc.mathInts || (fr != nil && fr.contract != nil && fr.contract.opt("wraps")) {
		mod := new(big.Int).Lsh(big.NewInt(1), uint(tb))
		w := fmt.Sprintf("(mod %s %s)", v.S, mod.String())
		if ts {
			half := new(big.Int).Lsh(big.NewInt(1), uint(tb-1))
			w = fmt.Sprintf("(ite (>= %s %s) (- %s %s) %s)", w, half.String(), w, mod.String(), w)
		}
		return mk(w, sortInt)
	}
	vc.oblige(st, fr, "safe.conv", "", mk(fmt.Sprintf("(and (<= %s %s) (<= %s %s))", lo.S, v.S, v.S, hi.S), sortBool), "integer conversion preserves the value", pos)
	return v
}

// ---------------------------------------------------------------- binary operators

func (vc *VC) binop(fr *Frame, st *State, op token.Token, a, b Val, ta, tb, tr types.Type, pos token.Pos) Term {
	// pointer / reference comparisons
	if a.P != nil || b.P != nil {
		eq := vc.ptrEq(a, b)
		if op == token.NEQ {
			return tNot(eq)
		}
		return eq
	}
	x, y := a.T, b.T
	switch {
	case isBool(ta):
		switch op {
		case token.EQL:
			return tEq(x, y)
		case token.NEQ:
			return tNot(tEq(x, y))
		case token.LAND, token.AND:
			return tAnd(x, y)
		case token.LOR, token.OR:
			return tOr(x, y)
		}
	case isString(ta):
		switch op {
		case token.EQL:
			return tEq(x, y)
		case token.NEQ:
			return tNot(tEq(x, y))
		case token.ADD:
			r := vc.define("strcat", mk(fmt.Sprintf("(str-cat %s %s)", x.S, y.S), sortStr))
			vc.assume(st, tEq(mk("(str-len "+r.S+")", vc.idxSort()), vc.idxAdd(mk("(str-len "+x.S+")", vc.idxSort()), mk("(str-len "+y.S+")", vc.idxSort()))))
			return r
		case token.LSS:
			return mk(fmt.Sprintf("(str-lt %s %s)", x.S, y.S), sortBool)
		case token.GTR:
			return mk(fmt.Sprintf("(str-lt %s %s)", y.S, x.S), sortBool)
		case token.LEQ:
			return tNot(mk(fmt.Sprintf("(str-lt %s %s)", y.S, x.S), sortBool))
		case token.GEQ:
			return tNot(mk(fmt.Sprintf("(str-lt %s %s)", x.S, y.S), sortBool))
		}
	}
	if bits, signed, ok := intInfo(ta); ok {
		if vc.mode == ModeBV {
			return vc.bvBinop(fr, st, op, x, y, bits, signed, tb, pos)
		}
		return vc.mathBinop(fr, st, op, x, y, bits, signed, tb, tr, pos)
	}
	if isFloat(ta) && vc.mode == ModeMath {
		switch op {
		case token.ADD:
			return mk(app("+", x, y), sortReal)
		case token.SUB:
			return mk(app("-", x, y), sortReal)
		case token.MUL:
			return mk(app("*", x, y), sortReal)
		case token.QUO:
			return mk(app("/", x, y), sortReal)
		case token.LSS:
			return mk(app("<", x, y), sortBool)
		case token.LEQ:
			return mk(app("<=", x, y), sortBool)
		case token.GTR:
			return mk(app(">", x, y), sortBool)
		case token.GEQ:
			return mk(app(">=", x, y), sortBool)
		case token.EQL:
			return tEq(x, y)
		case token.NEQ:
			return tNot(tEq(x, y))
		}
	}
	// slices can only be compared with nil: nil-ness is "no backing array"
	if isSliceT(ta) && (op == token.EQL || op == token.NEQ) {
		eq := tEq(mk("(sl-ref "+x.S+")", sortRef), mk("(sl-ref "+y.S+")", sortRef))
		if op == token.NEQ {
			return tNot(eq)
		}
		return eq
	}
	// generic equality on other sorts (interfaces, structs, arrays)
	switch op {
	case token.EQL:
		return tEq(x, y)
	case token.NEQ:
		return tNot(tEq(x, y))
	}
	vc.note(fmt.Sprintf("binop %s on %s abstracted", op, typeKey(ta)))
	return vc.declFresh("binop", vc.sortOf(tr))
}

func (vc *VC) ptrEq(a, b Val) Term {
	refOf := func(v Val) (Term, bool) {
		if v.P == nil {
			// untyped nil const for pointers comes as T = 0
			return v.T, v.T.T != nil
		}
		if (v.P.Kind == BPtr || v.P.Kind == BArr) && len(v.P.Path) == 0 {
			return v.P.Ref, true
		}
		return Term{}, false
	}
	ra, oka := refOf(a)
	rb, okb := refOf(b)
	if oka && okb {
		return tEq(ra, rb)
	}
	// interior/local places are never nil
	if oka && ra.S == "0" || okb && rb.S == "0" {
		return tFalse
	}
	if samePlace(a.P, b.P) {
		return tTrue
	}
	vc.note("pointer comparison between interior places abstracted")
	return vc.declFresh("ptreq", sortBool)
}

func (vc *VC) bvBinop(fr *Frame, st *State, op token.Token, x, y Term, bits int, signed bool, ty types.Type, pos token.Pos) Term {
	s := sortBV(bits)
	bin := func(o string) Term { return mk(app(o, x, y), s) }
	cmp := func(o string) Term { return mk(app(o, x, y), sortBool) }
	switch op {
	case token.ADD:
		return bin("bvadd")
	case token.SUB:
		return bin("bvsub")
	case token.MUL:
		return bin("bvmul")
	case token.QUO:
		vc.oblige(st, fr, "safe.div", "", tNot(tEq(y, bvLitI(0, bits))), "division by zero", pos)
		if signed {
			return bin("bvsdiv")
		}
		return bin("bvudiv")
	case token.REM:
		vc.oblige(st, fr, "safe.div", "", tNot(tEq(y, bvLitI(0, bits))), "division by zero", pos)
		if signed {
			return bin("bvsrem")
		}
		return bin("bvurem")
	case token.AND:
		return bin("bvand")
	case token.OR:
		return bin("bvor")
	case token.XOR:
		return bin("bvxor")
	case token.AND_NOT:
		return mk(fmt.Sprintf("(bvand %s (bvnot %s))", x.S, y.S), s)
	case token.SHL, token.SHR:
		yb, ys, _ := intInfo(ty)
		if ys {
			vc.oblige(st, fr, "safe.shift", "", mk(fmt.Sprintf("(bvsge %s %s)", y.S, bvLitI(0, yb).S), sortBool), "negative shift count", pos)
		}
		var cnt Term
		var big Term = tFalse
		switch {
		case yb == bits:
			cnt = y
		case yb < bits:
			cnt = mk(fmt.Sprintf("((_ zero_extend %d) %s)", bits-yb, y.S), s)
		default:
			cnt = mk(fmt.Sprintf("((_ extract %d 0) %s)", bits-1, y.S), s)
			big = mk(fmt.Sprintf("(bvuge %s %s)", y.S, bvLitI(int64(bits), yb).S), sortBool)
		}
		var o string
		switch {
		case op == token.SHL:
			o = "bvshl"
		case signed:
			o = "bvashr"
		default:
			o = "bvlshr"
		}
		r := mk(app(o, x, cnt), s)
		if big.S != "false" {
			var sat Term
			if o == "bvashr" {
				sat = mk(fmt.Sprintf("(bvashr %s %s)", x.S, bvLitI(int64(bits-1), bits).S), s)
			} else {
				sat = bvLitI(0, bits)
			}
			r = tIte(big, sat, r)
		}
		return r
	case token.EQL:
		return tEq(x, y)
	case token.NEQ:
		return tNot(tEq(x, y))
	case token.LSS:
		if signed {
			return cmp("bvslt")
		}
		return cmp("bvult")
	case token.LEQ:
		if signed {
			return cmp("bvsle")
		}
		return cmp("bvule")
	case token.GTR:
		if signed {
			return cmp("bvsgt")
		}
		return cmp("bvugt")
	case token.GEQ:
		if signed {
			return cmp("bvsge")
		}
		return cmp("bvuge")
	}
	vc.errorf("unsupported bv binop %s", op)
	return x
}

func (vc *VC) mathBinop(fr *Frame, st *State, op token.Token, x, y Term, bits int, signed bool, ty, tr types.Type, pos token.Pos) Term {
	lo, hi := intRange(bits, signed)
	wrapOK := vc.mathInts || (fr != nil && fr.contract != nil && fr.contract.opt("wraps"))
	rng := func(r Term, what string) Term {
		if wrapOK {
			return r
		}
		r = vc.define("ar", r)
		vc.oblige(st, fr, "safe.overflow", "", mk(fmt.Sprintf("(and (<= %s %s) (<= %s %s))", lo.S, r.S, r.S, hi.S), sortBool), what+" does not overflow", pos)
		return r
	}
	cmp := func(o string) Term { return mk(app(o, x, y), sortBool) }
	switch op {
	case token.ADD:
		return rng(mk(app("+", x, y), sortInt), "addition")
	case token.SUB:
		return rng(mk(app("-", x, y), sortInt), "subtraction")
	case token.MUL:
		return rng(mk(app("*", x, y), sortInt), "multiplication")
	case token.QUO:
		vc.oblige(st, fr, "safe.div", "", tNot(tEq(y, mk("0", sortInt))), "division by zero", pos)
		// Go truncates toward zero
		q := fmt.Sprintf("(ite (>= %s 0) (div %s %s) (- (div (- %s) %s)))", x.S, x.S, y.S, x.S, y.S)
		if !signed {
			q = fmt.Sprintf("(div %s %s)", x.S, y.S)
		}
		return rng(mk(q, sortInt), "division")
	case token.REM:
		vc.oblige(st, fr, "safe.div", "", tNot(tEq(y, mk("0", sortInt))), "division by zero", pos)
		r := fmt.Sprintf("(mod %s %s)", x.S, y.S)
		if signed {
			r = fmt.Sprintf("(ite (>= %s 0) (mod %s (ite (>= %s 0) %s (- %s))) (- (mod (- %s) (ite (>= %s 0) %s (- %s)))))", x.S, x.S, y.S, y.S, y.S, x.S, y.S, y.S, y.S)
		}
		return mk(r, sortInt)
	case token.SHL:
		if k, ok := litValue(y); ok {
			p := new(big.Int).Lsh(big.NewInt(1), uint(k))
			return rng(mk(fmt.Sprintf("(* %s %s)", x.S, p.String()), sortInt), "shift")
		}
	case token.SHR:
		if k, ok := litValue(y); ok {
			p := new(big.Int).Lsh(big.NewInt(1), uint(k))
			return mk(fmt.Sprintf("(div %s %s)", x.S, p.String()), sortInt)
		}
	case token.EQL:
		return tEq(x, y)
	case token.NEQ:
		return tNot(tEq(x, y))
	case token.LSS:
		return cmp("<")
	case token.LEQ:
		return cmp("<=")
	case token.GTR:
		return cmp(">")
	case token.GEQ:
		return cmp(">=")
	}
	vc.note(fmt.Sprintf("math-mode binop %s abstracted", op))
	r := vc.declFresh("mathop", sortInt)
	vc.assumeGlobal(mk(fmt.Sprintf("(and (<= %s %s) (<= %s %s))", lo.S, r.S, r.S, hi.S), sortBool))
	return r
}

// ---------------------------------------------------------------- interfaces

func (vc *VC) typeID(t types.Type) int {
	k := typeKey(t)
	if id, ok := vc.typeIDs[k]; ok {
		return id
	}
	id := len(vc.typeIDs) + 1
	vc.typeIDs[k] = id
	return id
}

func (vc *VC) boxComp(t types.Type) string {
	comp := "B:" + typeKey(t)
	vc.registerComp(comp, sortArray(sortRef, vc.sortOf(t)))
	return comp
}

func (vc *VC) makeInterface(fr *Frame, st *State, x *ssa.MakeInterface) {
	v := vc.operand(fr, st, x.X)
	t := x.X.Type()
	id := vc.typeID(t)
	var ref Term
	if v.P != nil {
		if (v.P.Kind == BPtr || v.P.Kind == BArr) && len(v.P.Path) == 0 {
			ref = v.P.Ref
		} else {
			vc.note("interior pointer boxed into interface: abstracted")
			ref = vc.declFresh("boxref", sortRef)
		}
	} else if isPointer(t) {
		ref = v.T
	} else {
		// box the value
		ref = st.top
		st.top = vc.define("top", mk(fmt.Sprintf("(+ %s 1)", ref.S), sortRef))
		comp := vc.boxComp(t)
		h := vc.heapGet(st.heap, comp)
		st.heap.known[comp] = vc.define(comp, tStore(h, ref, v.T))
	}
	vc.setVal(fr, x, Val{T: vc.named(fr, x, mk(fmt.Sprintf("(mk-iface %d %s)", id, ref.S), sortIface))})
}

func (vc *VC) typeAssert(fr *Frame, st *State, x *ssa.TypeAssert) {
	v := vc.operand(fr, st, x.X)
	at := x.AssertedType
	var ok Term
	var res Val
	if _, isIface := at.Underlying().(*types.Interface); isIface {
		// interface-to-interface: succeeds for non-nil values whose type implements it; abstracted
		okc := vc.declFresh("implements", sortBool)
		ok = tAnd(tNot(tEq(mk("(ityp "+v.T.S+")", sortInt), mk("0", sortInt))), okc)
		res = Val{T: v.T}
	} else {
		id := vc.typeID(at)
		ok = tEq(mk("(ityp "+v.T.S+")", sortInt), mk(fmt.Sprint(id), sortInt))
		if isPointer(at) {
			res = vc.ptrVal(mk("(iref "+v.T.S+")", sortRef), at)
		} else {
			comp := vc.boxComp(at)
			res = Val{T: tSelect(vc.heapGet(st.heap, comp), mk("(iref "+v.T.S+")", sortRef))}
		}
	}
	if x.CommaOk {
		okn := vc.define(x.Name()+"!ok", ok)
		if res.P == nil {
			res = Val{T: tIte(okn, res.T, vc.zeroOf(at))}
		} else {
			np := *res.P
			np.Ref = tIte(okn, np.Ref, mk("0", sortRef))
			res = Val{P: &np}
		}
		vc.setVal(fr, x, Val{Tup: []Val{res, {T: okn}}})
		return
	}
	vc.oblige(st, fr, "safe.typeassert", "", ok, "type assertion succeeds", x.Pos())
	vc.setVal(fr, x, res)
}
