package main

import (
	"fmt"
	"go/constant"
	"go/token"
	"go/types"
	"math/big"
	"regexp"
	"strconv"
	"strings"

	"golang.org/x/tools/go/ssa"
)

// SVal is the value of a specification expression.
type SVal struct {
	T       Term
	P       *Place
	GoT     types.Type
	Untyped *big.Int
	View    *SliceView
	Signed  *bool // explicit signedness when GoT is nil
}

type SliceView struct {
	Arr, Off, Len Term
	Elem          types.Type
}

type SpecEnv struct {
	vc       *VC
	fr       *Frame
	st       *State
	old      *State
	names    map[string]SVal
	oldNames map[string]SVal
	noAssume bool
	atBlock  *ssa.BasicBlock
	sub      map[ssa.Value]Val
	pkg      *types.Package
	inOld    bool
	ssaPkg   *ssa.Package
	qdepth   int
	pol      int // +1: the expression is assumed (positive position), -1: negative, 0: unknown/both
}

// loaded records the heap invariant for a reference-typed value read from the heap by a specification
// (every stored reference is below the allocation counter of that state).
func (env *SpecEnv) loaded(t Term, typ types.Type) {
	if env.qdepth > 0 || env.st == nil || env.st.top.T == nil {
		return
	}
	switch typ.Underlying().(type) {
	case *types.Slice, *types.Pointer, *types.Map, *types.Interface:
		env.vc.assumeLoaded(env.st, t, typ)
	}
}

func (env *SpecEnv) child() *SpecEnv {
	ne := *env
	ne.names = map[string]SVal{}
	for k, v := range env.names {
		ne.names[k] = v
	}
	return &ne
}

type specErr struct{ msg string }

func (env *SpecEnv) fail(f string, a ...interface{}) {
	panic(specErr{fmt.Sprintf(f, a...)})
}

// evalSpecBool evaluates a clause to a Bool term; errors are reported on the VC.
func (vc *VC) evalSpecBool(env *SpecEnv, c *Clause) (t Term) {
	defer func() {
		if r := recover(); r != nil {
			if se, ok := r.(specErr); ok {
				vc.errorf("%s:%d: in %q: %s", shortPath(c.File), c.Line, c.Src, se.msg)
				t = tTrue
				return
			}
			panic(r)
		}
	}()
	if len(c.Consts) > 0 {
		env = env.child()
		for k, v := range c.Consts {
			env.names[k] = SVal{Untyped: big.NewInt(v)}
		}
	}
	v := env.eval(c.Expr)
	if v.T.T == nil || v.T.T.K != SBool {
		env.fail("clause is not boolean")
	}
	return v.T
}

func shortPath(p string) string {
	if i := strings.Index(p, "/src/"); i >= 0 {
		return p[i+1:]
	}
	return p
}

func (vc *VC) sval(v Val, t types.Type) SVal {
	return SVal{T: v.T, P: v.P, GoT: t}
}

// toTerm forces an SVal to an SMT term (loads nothing: pointers become refs).
func (env *SpecEnv) term(v SVal) Term {
	if v.Untyped != nil {
		if env.vc.mode == ModeBV {
			return bvLit(v.Untyped, 64)
		}
		return intLit(v.Untyped)
	}
	if v.P != nil {
		if (v.P.Kind == BPtr || v.P.Kind == BArr) && len(v.P.Path) == 0 {
			return v.P.Ref
		}
		env.fail("interior pointer used as a value")
	}
	if v.T.T == nil {
		env.fail("expression has no value here")
	}
	return v.T
}

func (env *SpecEnv) signedOf(v SVal) bool {
	if v.GoT != nil {
		if _, s, ok := intInfo(v.GoT); ok {
			return s
		}
		return false
	}
	if v.Signed != nil {
		return *v.Signed
	}
	return false
}

func (env *SpecEnv) eval(e *SExpr) SVal {
	vc := env.vc
	switch e.Op {
	case "lit":
		if strings.HasPrefix(e.Lit, "\"") {
			return SVal{T: vc.strLit(strings.Trim(e.Lit, "\"")), GoT: types.Typ[types.String]}
		}
		b, ok := new(big.Int).SetString(e.Lit, 0)
		if !ok {
			env.fail("bad literal %s", e.Lit)
		}
		return SVal{Untyped: b}
	case "id":
		return env.ident(e.Name)
	case "sel":
		return env.selector(e)
	case "idx":
		return env.index(e)
	case "slice":
		return env.sliceExpr(e)
	case "call":
		return env.callExpr(e)
	case "un":
		return env.unary(e)
	case "bin":
		return env.binary(e)
	case "forall", "exists":
		if e.Op == "exists" && env.pol > 0 && env.qdepth == 0 && vc != nil {
			// an assumed existential: introduce witnesses (skolem constants)
			ne := env.child()
			for _, b := range e.Binders {
				srt, gt := env.binderSort(b.Type)
				c := vc.declFresh("sk!"+b.Name, srt)
				ne.names[b.Name] = SVal{T: c, GoT: gt}
				if vc.mode == ModeMath && gt != nil && b.Type != "int" {
					if bits, signed, ok := intInfo(gt); ok {
						lo, hi := intRange(bits, signed)
						vc.assumeGlobal(mk(fmt.Sprintf("(and (<= %s %s) (<= %s %s))", lo.S, c.S, c.S, hi.S), sortBool))
					}
				}
			}
			return ne.eval(e.Args[0])
		}
		ne := env.child()
		ne.qdepth = env.qdepth + 1
		var bs []string
		var guards []Term
		for _, b := range e.Binders {
			srt, gt := env.binderSort(b.Type)
			name := smtIdent("q!" + b.Name)
			bs = append(bs, fmt.Sprintf("(%s %s)", name, srt.Name))
			ne.names[b.Name] = SVal{T: mk(name, srt), GoT: gt}
			if vc.mode == ModeMath && gt != nil {
				if bits, signed, ok := intInfo(gt); ok && b.Type != "int" && b.Type != "Int" {
					lo, hi := intRange(bits, signed)
					guards = append(guards, mk(fmt.Sprintf("(and (<= %s %s) (<= %s %s))", lo.S, name, name, hi.S), sortBool))
				}
			}
		}
		body := ne.eval(e.Args[0])
		if body.T.T == nil || body.T.T.K != SBool {
			env.fail("quantifier body is not boolean")
		}
		bt := body.T
		if len(guards) > 0 {
			if e.Op == "forall" {
				bt = tImp(tAnd(guards...), bt)
			} else {
				bt = tAnd(append(guards, bt)...)
			}
		}
		if e.Op == "exists" && len(e.Binders) == 1 {
			// "exists m Int :: real(m) == ..." as a proof goal: let the solver try the integers whose real value
			// already occurs in the context as witnesses
			name := smtIdent("q!" + e.Binders[0].Name)
			if pat := "(to_real " + name + ")"; strings.Contains(bt.S, pat) {
				return SVal{T: mk(fmt.Sprintf("(exists (%s) (! %s :pattern (%s)))", strings.Join(bs, " "), bt.S, pat), sortBool)}
			}
		}
		return SVal{T: mk(fmt.Sprintf("(%s (%s) %s)", e.Op, strings.Join(bs, " "), bt.S), sortBool)}
	}
	env.fail("cannot evaluate %s", e)
	return SVal{}
}

func (env *SpecEnv) binderSort(tn string) (*Sort, types.Type) {
	vc := env.vc
	switch tn {
	case "int":
		return vc.idxSort(), types.Typ[types.Int]
	case "Int":
		return sortInt, nil
	case "Ref":
		return sortRef, nil
	case "bool":
		return sortBool, types.Typ[types.Bool]
	case "Real":
		return sortReal, nil
	case "u128", "u256", "u257", "u512":
		if vc.mode == ModeMath {
			return sortInt, nil
		}
		var n int
		fmt.Sscanf(tn, "u%d", &n)
		return sortBV(n), nil
	case "string":
		return sortStr, types.Typ[types.String]
	case "Iface", "error":
		return sortIface, nil
	case "Bytes":
		vc.needBytes = true
		return &Sort{K: SOpaque, Name: "Bytes"}, nil
	case "BytesMap":
		// an abstract key/value store (one row of a ghost (Array K (Array Bytes Bytes)))
		vc.needBytes = true
		bs := &Sort{K: SOpaque, Name: "Bytes"}
		return sortArray(bs, bs), nil
	case "float64":
		return vc.sortOf(types.Typ[types.Float64]), types.Typ[types.Float64]
	}
	for _, b := range types.Typ {
		if b.Name() == tn {
			if bits, _, ok := intInfo(b); ok {
				return vc.intSort(bits), b
			}
		}
	}
	if tn == "byte" {
		return vc.intSort(8), types.Typ[types.Uint8]
	}
	// a name given to a type literal with '//@ type NAME = ...'
	if vc.P != nil {
		if expr, ok := vc.P.TypeAlias[tn]; ok {
			if t := env.typeExpr(expr); t != nil {
				return vc.sortOf(t), t
			}
		}
	}
	// named type of the current package, or pkg.Type of an imported package
	if env.pkg != nil {
		if o := env.pkg.Scope().Lookup(tn); o != nil {
			if tnm, ok := o.(*types.TypeName); ok {
				return vc.sortOf(tnm.Type()), tnm.Type()
			}
		}
		if i := strings.Index(tn, "."); i > 0 {
			for _, imp := range env.pkg.Imports() {
				if imp.Name() == tn[:i] {
					if o := imp.Scope().Lookup(tn[i+1:]); o != nil {
						if tnm, ok := o.(*types.TypeName); ok {
							return vc.sortOf(tnm.Type()), tnm.Type()
						}
					}
				}
			}
		}
	}
	env.fail("unknown binder type %s", tn)
	return nil, nil
}

// typeExpr builds a Go type from map[K]V, []T, *T and type names.
func (env *SpecEnv) typeExpr(s string) types.Type {
	s = strings.TrimSpace(s)
	switch {
	case strings.HasPrefix(s, "map["):
		depth := 0
		for i := 3; i < len(s); i++ {
			switch s[i] {
			case '[':
				depth++
			case ']':
				depth--
				if depth == 0 {
					k, v := env.typeExpr(s[4:i]), env.typeExpr(s[i+1:])
					if k == nil || v == nil {
						return nil
					}
					return types.NewMap(k, v)
				}
			}
		}
		return nil
	case strings.HasPrefix(s, "[]"):
		if e := env.typeExpr(s[2:]); e != nil {
			return types.NewSlice(e)
		}
		return nil
	case strings.HasPrefix(s, "*"):
		if e := env.typeExpr(s[1:]); e != nil {
			return types.NewPointer(e)
		}
		return nil
	}
	_, t := env.binderSort(s)
	return t
}

func (env *SpecEnv) ident(name string) SVal {
	vc := env.vc
	switch name {
	case "true":
		return SVal{T: tTrue, GoT: types.Typ[types.Bool]}
	case "false":
		return SVal{T: tFalse, GoT: types.Typ[types.Bool]}
	case "nil":
		return SVal{T: mk("0", sortRef), GoT: types.Typ[types.UntypedNil]}
	}
	if env.inOld {
		if v, ok := env.oldNames[name]; ok {
			return v
		}
	}
	if v, ok := env.names[name]; ok {
		return v
	}
	if env.fr != nil && env.atBlock != nil {
		if v, t, ok := vc.lookupLocal(env.fr, env.st, env.atBlock, name, env.sub); ok {
			return vc.sval(v, t)
		}
	}
	if v, ok := env.oldNames[name]; ok {
		return v
	}
	// package scope
	if env.pkg != nil {
		if o := env.pkg.Scope().Lookup(name); o != nil {
			return env.object(o)
		}
	}
	if o := types.Universe.Lookup(name); o != nil {
		if c, ok := o.(*types.Const); ok {
			return env.constObj(c)
		}
	}
	env.fail("unknown identifier %s", name)
	return SVal{}
}

func (env *SpecEnv) constObj(c *types.Const) SVal {
	vc := env.vc
	t := c.Type()
	if bits, _, ok := intInfo(t); ok {
		b, _ := new(big.Int).SetString(constant.ToInt(c.Val()).ExactString(), 10)
		if bt, isB := t.(*types.Basic); isB && bt.Info()&types.IsUntyped != 0 {
			return SVal{Untyped: b}
		}
		return SVal{T: vc.intConst(b, bits), GoT: t}
	}
	if isBool(t) {
		if constant.BoolVal(c.Val()) {
			return SVal{T: tTrue, GoT: t}
		}
		return SVal{T: tFalse, GoT: t}
	}
	if isString(t) {
		return SVal{T: vc.strLit(constant.StringVal(c.Val())), GoT: types.Typ[types.String]}
	}
	env.fail("constant %s of unsupported type", c.Name())
	return SVal{}
}

func (env *SpecEnv) object(o types.Object) SVal {
	vc := env.vc
	switch x := o.(type) {
	case *types.Const:
		return env.constObj(x)
	case *types.Var:
		// package-level variable
		sp := vc.P.SSA.Package(x.Pkg())
		if sp == nil {
			env.fail("package %s not loaded", x.Pkg().Path())
		}
		g, ok := sp.Members[x.Name()].(*ssa.Global)
		if !ok {
			env.fail("%s is not a global", x.Name())
		}
		pv := vc.globalPlace(g)
		t := vc.loadPlace(env.st, pv.P)
		if isPointer(x.Type()) && vc.topEntry.T != nil && env.st != nil && !env.noAssume {
			// what a global that this function has not written points to was allocated before entry
			unwritten := strings.HasPrefix(pv.P.Comp, "GC:")
			if !unwritten && vc.top != nil && vc.top.entrySt != nil {
				if e, ok := vc.top.entrySt.heap.known[pv.P.Comp]; ok {
					if c, ok2 := env.st.heap.known[pv.P.Comp]; ok2 && c.S == e.S {
						unwritten = true
					}
				}
			}
			if unwritten {
				vc.assume(env.st, mk(fmt.Sprintf("(< %s %s)", t.S, vc.topEntry.S), sortBool))
			}
		}
		return vc.svalOfLoaded(t, x.Type())
	case *types.Func:
		sp := vc.P.SSA.Package(x.Pkg())
		if sp != nil {
			if f := sp.Func(x.Name()); f != nil {
				return SVal{T: vc.funcConst(f), GoT: x.Type()}
			}
		}
	}
	env.fail("cannot use %s in a specification", o.Name())
	return SVal{}
}

func (vc *VC) svalOfLoaded(t Term, typ types.Type) SVal {
	if isPointer(typ) {
		v := vc.ptrVal(t, typ)
		return SVal{P: v.P, GoT: typ}
	}
	return SVal{T: t, GoT: typ}
}

// lookupLocal finds the value of source variable name at the entry of block b (after phis).
func (vc *VC) lookupLocal(fr *Frame, st *State, b *ssa.BasicBlock, name string, sub map[ssa.Value]Val) (Val, types.Type, bool) {
	get := func(v ssa.Value) Val {
		if sub != nil {
			if x, ok := sub[v]; ok {
				return x
			}
		}
		return vc.operand(fr, st, v)
	}
	first := true
	for blk := b; blk != nil; blk = blk.Idom() {
		if !first {
			// debug refs inside a dominating block: the last one wins
			ds := fr.debug[blk]
			for i := len(ds) - 1; i >= 0; i-- {
				d := ds[i]
				if d.obj.Name() != name {
					continue
				}
				if _, isVar := d.obj.(*types.Var); !isVar {
					continue
				}
				if _, defined := fr.vals[d.val]; !defined {
					if _, isC := d.val.(*ssa.Const); !isC {
						if _, isP := d.val.(*ssa.Parameter); !isP {
							continue
						}
					}
				}
				if d.isAddr {
					pv := get(d.val)
					if pv.P == nil {
						continue
					}
					t := vc.loadPlace(st, pv.P)
					return vc.mkVal(t, d.obj.Type()), d.obj.Type(), true
				}
				return get(d.val), d.obj.Type(), true
			}
		}
		for _, ins := range blk.Instrs {
			phi, ok := ins.(*ssa.Phi)
			if !ok {
				break
			}
			if phi.Comment == name {
				return get(phi), phi.Type(), true
			}
		}
		first = false
	}
	for _, p := range fr.fn.Params {
		if p.Name() == name {
			return get(p), p.Type(), true
		}
	}
	for _, fv := range fr.fn.FreeVars {
		if fv.Name() == name {
			return vc.operand(fr, st, fv), fv.Type(), true
		}
	}
	return Val{}, nil, false
}

func (env *SpecEnv) selector(e *SExpr) SVal {
	// package-qualified name?
	if b := e.Args[0]; b.Op == "id" {
		if _, bound := env.names[b.Name]; !bound {
			if env.pkg != nil {
				for _, imp := range env.pkg.Imports() {
					if imp.Name() == b.Name {
						if _, _, isLocal := env.tryLocal(b.Name); isLocal {
							break
						}
						o := imp.Scope().Lookup(e.Name)
						if o == nil {
							env.fail("%s.%s not found", b.Name, e.Name)
						}
						return env.object(o)
					}
				}
			}
		}
	}
	base := env.eval(e.Args[0])
	return env.fieldOf(base, e.Name)
}

func (env *SpecEnv) tryLocal(name string) (Val, types.Type, bool) {
	if env.fr != nil && env.atBlock != nil {
		return env.vc.lookupLocal(env.fr, env.st, env.atBlock, name, env.sub)
	}
	return Val{}, nil, false
}

func (env *SpecEnv) fieldOf(base SVal, fname string) SVal {
	vc := env.vc
	if base.GoT == nil {
		env.fail("field %s of untyped value", fname)
	}
	t := base.GoT
	if isPointer(t) {
		// auto-deref
		if base.P == nil {
			env.fail("pointer value without place")
		}
		st := derefType(t)
		su, ok := st.Underlying().(*types.Struct)
		if !ok {
			env.fail("field %s of non-struct %s", fname, st)
		}
		idx, ft := fieldIndex(su, fname)
		if idx < 0 {
			if emb := embeddedWith(su, fname); emb != "" {
				return env.fieldOf(env.fieldOf(base, emb), fname)
			}
			env.fail("no field %s in %s", fname, st)
		}
		np := base.P.extend(PathElem{Field: idx, Cont: st}, ft)
		val := vc.loadPlace(env.st, np)
		env.loaded(val, ft)
		if isPointer(ft) {
			return vc.svalOfLoaded(val, ft)
		}
		return SVal{T: val, GoT: ft}
	}
	su, ok := t.Underlying().(*types.Struct)
	if !ok {
		env.fail("field %s of non-struct %s", fname, t)
	}
	idx, ft := fieldIndex(su, fname)
	if idx < 0 {
		if emb := embeddedWith(su, fname); emb != "" {
			return env.fieldOf(env.fieldOf(base, emb), fname)
		}
		env.fail("no field %s in %s", fname, t)
	}
	val := vc.project(base.T, PathElem{Field: idx, Cont: t})
	return vc.svalOfLoaded(val, ft)
}

// embeddedWith names the embedded field of st through which the promoted field name is reachable.
func embeddedWith(st *types.Struct, name string) string {
	for i := 0; i < st.NumFields(); i++ {
		f := st.Field(i)
		if !f.Embedded() {
			continue
		}
		if es, ok := derefType(f.Type()).Underlying().(*types.Struct); ok {
			if j, _ := fieldIndex(es, name); j >= 0 || embeddedWith(es, name) != "" {
				return f.Name()
			}
		}
	}
	return ""
}

func fieldIndex(st *types.Struct, name string) (int, types.Type) {
	for i := 0; i < st.NumFields(); i++ {
		if st.Field(i).Name() == name {
			return i, st.Field(i).Type()
		}
	}
	return -1, nil
}

// view turns a slice-valued SVal into (array, offset, length).
func (env *SpecEnv) view(v SVal) *SliceView {
	vc := env.vc
	if v.View != nil {
		return v.View
	}
	if v.GoT != nil {
		if sl, ok := v.GoT.Underlying().(*types.Slice); ok {
			s := v.T
			arr := tSelect(vc.heapGet(env.st.heap, vc.arrComp(sl.Elem())), mk("(sl-ref "+s.S+")", sortRef))
			return &SliceView{Arr: arr, Off: mk("(sl-off "+s.S+")", vc.idxSort()), Len: mk("(sl-len "+s.S+")", vc.idxSort()), Elem: sl.Elem()}
		}
	}
	env.fail("not a slice")
	return nil
}

func (env *SpecEnv) idxTerm(v SVal) Term {
	vc := env.vc
	if v.Untyped != nil {
		if vc.mode == ModeBV {
			return bvLit(v.Untyped, 64)
		}
		return intLit(v.Untyped)
	}
	if v.GoT != nil {
		return vc.toIdx(v.T, v.GoT)
	}
	return v.T
}

func (env *SpecEnv) index(e *SExpr) SVal {
	vc := env.vc
	base := env.eval(e.Args[0])
	iv := env.eval(e.Args[1])
	if base.View != nil || (base.GoT != nil && isSliceT(base.GoT)) {
		vw := env.view(base)
		i := env.idxTerm(iv)
		t := tSelect(vw.Arr, vc.idxAdd(vw.Off, i))
		t.T = vc.sortOf(vw.Elem)
		return vc.svalOfLoaded(t, vw.Elem)
	}
	if base.GoT != nil {
		bt := base.GoT
		if isPointer(bt) {
			// pointer to array / uint256
			el := derefType(bt)
			val := vc.loadPlace(env.st, base.P)
			base = SVal{T: val, GoT: el}
			bt = el
		}
		if isU256(bt) {
			return SVal{T: vc.u256Limb(base.T, env.idxTerm(iv)), GoT: types.Typ[types.Uint64]}
		}
		switch u := bt.Underlying().(type) {
		case *types.Array:
			t := tSelect(base.T, env.idxTerm(iv))
			t.T = vc.sortOf(u.Elem())
			return vc.svalOfLoaded(t, u.Elem())
		case *types.Basic:
			if isString(bt) {
				return SVal{T: mk(fmt.Sprintf("(str-at %s %s)", base.T.S, env.idxTerm(iv).S), vc.intSort(8)), GoT: types.Typ[types.Uint8]}
			}
		case *types.Map:
			mv := vc.mapValue(env.st, base.T, u)
			k := env.coerce(iv, u.Key())
			t := tSelect(vc.mapAcc(u, "val", mv), k)
			t.T = vc.sortOf(u.Elem())
			return vc.svalOfLoaded(t, u.Elem())
		}
	}
	if base.T.T != nil && base.T.T.K == SArray {
		t := tSelect(base.T, env.term(iv))
		return SVal{T: t}
	}
	env.fail("cannot index %s", e.Args[0])
	return SVal{}
}

func isSliceT(t types.Type) bool {
	_, ok := t.Underlying().(*types.Slice)
	return ok
}

func (env *SpecEnv) sliceExpr(e *SExpr) SVal {
	vc := env.vc
	base := env.eval(e.Args[0])
	vw := env.view(base)
	lo := vc.idxLit(0)
	hi := vw.Len
	if e.Args[1] != nil {
		lo = env.idxTerm(env.eval(e.Args[1]))
	}
	if e.Args[2] != nil {
		hi = env.idxTerm(env.eval(e.Args[2]))
	}
	return SVal{View: &SliceView{Arr: vw.Arr, Off: vc.idxAdd(vw.Off, lo), Len: vc.idxSub(hi, lo), Elem: vw.Elem}}
}

func (env *SpecEnv) unary(e *SExpr) SVal {
	vc := env.vc
	if e.Name == "!" {
		ne := *env
		ne.pol = -env.pol
		x := ne.eval(e.Args[0])
		return SVal{T: tNot(x.T), GoT: types.Typ[types.Bool]}
	}
	x := env.eval(e.Args[0])
	switch e.Name {
	case "!":
		return SVal{T: tNot(x.T), GoT: types.Typ[types.Bool]}
	case "-":
		if x.Untyped != nil {
			return SVal{Untyped: new(big.Int).Neg(x.Untyped)}
		}
		if x.T.T.K == SBV {
			return SVal{T: mk("(bvneg "+x.T.S+")", x.T.T), GoT: x.GoT, Signed: x.Signed}
		}
		return SVal{T: mk("(- "+x.T.S+")", x.T.T), GoT: x.GoT}
	case "^":
		if x.T.T != nil && x.T.T.K == SBV {
			return SVal{T: mk("(bvnot "+x.T.S+")", x.T.T), GoT: x.GoT, Signed: x.Signed}
		}
		env.fail("^ needs a bit-vector")
	case "*":
		if x.P == nil {
			env.fail("dereference of non-pointer")
		}
		t := vc.loadPlace(env.st, x.P)
		return vc.svalOfLoaded(t, x.P.Typ)
	}
	env.fail("unsupported unary %s", e.Name)
	return SVal{}
}

// coerce converts v to the sort of Go type t (for literals and index-like values).
func (env *SpecEnv) coerce(v SVal, t types.Type) Term {
	vc := env.vc
	if v.Untyped != nil {
		if bits, _, ok := intInfo(t); ok {
			return vc.intConst(v.Untyped, bits)
		}
		if isU256(t) {
			return bvLit(v.Untyped, 256)
		}
		if isBigInt(t) {
			return intLit(v.Untyped)
		}
		if isFloat(t) || isBigRat(t) || isBigFloat(t) {
			return mk(intLit(v.Untyped).S+".0", sortReal)
		}
	}
	return env.term(v)
}

// unify brings two operands to a common sort; returns terms, the sort and signedness.
func (env *SpecEnv) unify(a, b SVal) (Term, Term, bool, types.Type) {
	vc := env.vc
	if a.Untyped != nil && b.Untyped != nil {
		if vc.mode == ModeBV {
			return bvLit(a.Untyped, 64), bvLit(b.Untyped, 64), true, types.Typ[types.Int]
		}
		return intLit(a.Untyped), intLit(b.Untyped), true, nil
	}
	lit := func(u *big.Int, other SVal) Term {
		ot := env.termOrLoad(other)
		switch ot.T.K {
		case SBV:
			return bvLit(u, ot.T.Bits)
		case SReal:
			return mk(intLit(u).S+".0", sortReal)
		default:
			return intLit(u)
		}
	}
	if a.Untyped != nil {
		return lit(a.Untyped, b), env.termOrLoad(b), env.signedOf(b), b.GoT
	}
	if b.Untyped != nil {
		return env.termOrLoad(a), lit(b.Untyped, a), env.signedOf(a), a.GoT
	}
	ta, tb := env.termOrLoad(a), env.termOrLoad(b)
	if ta.T != nil && tb.T != nil && ta.T.Name != tb.T.Name {
		// Int vs Real: promote
		if ta.T.K == SInt && tb.T.K == SReal {
			ta = mk("(to_real "+ta.S+")", sortReal)
		} else if ta.T.K == SReal && tb.T.K == SInt {
			tb = mk("(to_real "+tb.S+")", sortReal)
		} else if ta.T.K == SRef && tb.T.K == SInt || ta.T.K == SInt && tb.T.K == SRef {
			// fine: both Int
		} else {
			env.fail("operand sorts differ: %s vs %s", ta.T.Name, tb.T.Name)
		}
	}
	gt := a.GoT
	if gt == nil {
		gt = b.GoT
	}
	return ta, tb, env.signedOf(a) || (a.GoT == nil && a.Signed == nil && env.signedOf(b)), gt
}

// termOrLoad: value term; *big.Int / *uint256.Int pointers are implicitly dereferenced in arithmetic.
func (env *SpecEnv) termOrLoad(v SVal) Term {
	if v.P != nil && v.GoT != nil && isPointer(v.GoT) {
		el := derefType(v.GoT)
		if isBigInt(el) || isU256(el) || isBigRat(el) || isBigFloat(el) {
			return env.vc.loadPlace(env.st, v.P)
		}
	}
	return env.term(v)
}

func (env *SpecEnv) binary(e *SExpr) SVal {
	vc := env.vc
	op := e.Name
	switch op {
	case "&&", "||", "==>", "<==>":
		le, re := env, env
		switch op {
		case "==>":
			l2 := *env
			l2.pol = -env.pol
			le = &l2
		case "<==>":
			l2 := *env
			l2.pol = 0
			le, re = &l2, &l2
		}
		a, b := le.eval(e.Args[0]), re.eval(e.Args[1])
		if a.T.T == nil || b.T.T == nil || a.T.T.K != SBool || b.T.T.K != SBool {
			env.fail("%s needs boolean operands in %s", op, e)
		}
		switch op {
		case "&&":
			return SVal{T: tAnd(a.T, b.T)}
		case "||":
			return SVal{T: tOr(a.T, b.T)}
		case "==>":
			return SVal{T: tImp(a.T, b.T)}
		default:
			return SVal{T: tEq(a.T, b.T)}
		}
	}
	a, b := env.eval(e.Args[0]), env.eval(e.Args[1])
	// constant folding of untyped operands
	if a.Untyped != nil && b.Untyped != nil {
		x, y := a.Untyped, b.Untyped
		switch op {
		case "+":
			return SVal{Untyped: new(big.Int).Add(x, y)}
		case "-":
			return SVal{Untyped: new(big.Int).Sub(x, y)}
		case "*":
			return SVal{Untyped: new(big.Int).Mul(x, y)}
		case "<<":
			return SVal{Untyped: new(big.Int).Lsh(x, uint(y.Uint64()))}
		case "/":
			if y.Sign() != 0 {
				return SVal{Untyped: new(big.Int).Quo(x, y)}
			}
		}
	}
	if op == "==" || op == "!=" {
		var eq Term
		switch {
		case a.P != nil || b.P != nil || isNilSVal(a) || isNilSVal(b):
			eq = env.refEq(a, b)
		default:
			x, y, _, _ := env.unify(a, b)
			eq = tEq(x, y)
		}
		if op == "!=" {
			eq = tNot(eq)
		}
		return SVal{T: eq}
	}
	x, y, signed, gt := env.unify(a, b)
	if x.T == nil {
		env.fail("operand without sort in %s", e)
	}
	switch x.T.K {
	case SBV:
		s := x.T
		bin := func(o string) SVal { return SVal{T: mk(app(o, x, y), s), GoT: gt, Signed: &signed} }
		cmp := func(so, uo string) SVal {
			if signed {
				return SVal{T: mk(app(so, x, y), sortBool)}
			}
			return SVal{T: mk(app(uo, x, y), sortBool)}
		}
		switch op {
		case "+":
			return bin("bvadd")
		case "-":
			return bin("bvsub")
		case "*":
			return bin("bvmul")
		case "/":
			if signed {
				return bin("bvsdiv")
			}
			return bin("bvudiv")
		case "%":
			if signed {
				return bin("bvsrem")
			}
			return bin("bvurem")
		case "&":
			return bin("bvand")
		case "|":
			return bin("bvor")
		case "^":
			return bin("bvxor")
		case "&^":
			return SVal{T: mk(fmt.Sprintf("(bvand %s (bvnot %s))", x.S, y.S), s), GoT: gt}
		case "<<":
			return bin("bvshl")
		case ">>":
			if signed {
				return bin("bvashr")
			}
			return bin("bvlshr")
		case "<":
			return cmp("bvslt", "bvult")
		case "<=":
			return cmp("bvsle", "bvule")
		case ">":
			return cmp("bvsgt", "bvugt")
		case ">=":
			return cmp("bvsge", "bvuge")
		}
	case SInt, SReal, SRef:
		s := x.T
		bin := func(o string) SVal { return SVal{T: mk(app(o, x, y), s), GoT: gt} }
		cmp := func(o string) SVal { return SVal{T: mk(app(o, x, y), sortBool)} }
		switch op {
		case "+":
			return bin("+")
		case "-":
			return bin("-")
		case "*":
			return bin("*")
		case "/":
			if s.K == SReal {
				return bin("/")
			}
			return bin("div")
		case "%":
			return bin("mod")
		case "<":
			return cmp("<")
		case "<=":
			return cmp("<=")
		case ">":
			return cmp(">")
		case ">=":
			return cmp(">=")
		case "<<":
			if b.Untyped != nil {
				p := new(big.Int).Lsh(big.NewInt(1), uint(b.Untyped.Uint64()))
				return SVal{T: mk(fmt.Sprintf("(* %s %s)", x.S, p.String()), s), GoT: gt}
			}
		case ">>":
			if b.Untyped != nil {
				p := new(big.Int).Lsh(big.NewInt(1), uint(b.Untyped.Uint64()))
				return SVal{T: mk(fmt.Sprintf("(div %s %s)", x.S, p.String()), s), GoT: gt}
			}
		}
	case SStr:
		switch op {
		case "+":
			return SVal{T: mk(fmt.Sprintf("(str-cat %s %s)", x.S, y.S), sortStr), GoT: types.Typ[types.String]}
		case "<":
			return SVal{T: mk(fmt.Sprintf("(str-lt %s %s)", x.S, y.S), sortBool)}
		}
	}
	_ = vc
	env.fail("unsupported operator %s on sort %s in %s", op, x.T.Name, e)
	return SVal{}
}

func isNilSVal(v SVal) bool {
	if b, ok := v.GoT.(*types.Basic); ok && b.Kind() == types.UntypedNil {
		return true
	}
	return false
}

func (env *SpecEnv) refEq(a, b SVal) Term {
	// nil comparisons adapt to the other side's sort
	nilOf := func(o SVal) Term {
		if o.P != nil {
			return mk("0", sortRef)
		}
		if o.T.T != nil {
			switch o.T.T.K {
			case SIface:
				return mk("(mk-iface 0 0)", sortIface)
			case SSlice:
				// a slice is nil iff its ref is 0
				return Term{}
			case SOpaque:
				// function values and other opaque sorts have one nil constant each
				return env.vc.zeroOfSort(o.T.T, nil)
			}
		}
		return mk("0", sortRef)
	}
	if isNilSVal(a) {
		a, b = b, a
	}
	if isNilSVal(b) {
		if a.P != nil {
			if (a.P.Kind == BPtr || a.P.Kind == BArr) && len(a.P.Path) == 0 {
				return tEq(a.P.Ref, mk("0", sortRef))
			}
			return tFalse
		}
		if a.T.T != nil && a.T.T.K == SSlice {
			return tEq(mk("(sl-ref "+a.T.S+")", sortRef), mk("0", sortRef))
		}
		n := nilOf(a)
		return tEq(a.T, n)
	}
	return env.vc.ptrEq(Val{T: a.T, P: a.P}, Val{T: b.T, P: b.P})
}

var smtFunRe = regexp.MustCompile(`^\((?:define-fun|define-fun-rec|declare-fun)\s+(\S+)\s+\((.*?)\)\s+(\(_ BitVec \d+\)|\(Array [^()]*(?:\([^()]*\)[^()]*)*\)|[A-Za-z]+)`)

// smtFunSort finds the declared result sort of a raw SMT function from the prelude.
func (vc *VC) smtFunSort(name string) *Sort {
	if s, ok := vc.smtFuns[name]; ok {
		return s
	}
	return nil
}

func parseSortText(s string) *Sort {
	s = strings.TrimSpace(s)
	switch s {
	case "Bool":
		return sortBool
	case "Int":
		return sortInt
	case "Real":
		return sortReal
	case "Slice":
		return sortSlice
	case "Iface":
		return sortIface
	case "Str":
		return sortStr
	case "Bytes":
		return &Sort{K: SOpaque, Name: "Bytes"}
	}
	if strings.HasPrefix(s, "(_ BitVec ") {
		n, _ := strconv.Atoi(strings.TrimSuffix(strings.TrimPrefix(s, "(_ BitVec "), ")"))
		return sortBV(n)
	}
	if strings.HasPrefix(s, "(Array ") {
		// element sort = last component
		inner := strings.TrimSuffix(strings.TrimPrefix(s, "(Array "), ")")
		// split into index and element at top level
		depth := 0
		for i, c := range inner {
			if c == '(' {
				depth++
			} else if c == ')' {
				depth--
			} else if c == ' ' && depth == 0 {
				return &Sort{K: SArray, Name: s, Elem: parseSortText(inner[i+1:])}
			}
		}
	}
	return &Sort{K: SOpaque, Name: s}
}

func (env *SpecEnv) callExpr(e *SExpr) SVal {
	vc := env.vc
	name := e.Name
	if strings.HasPrefix(name, "@") {
		fn := name[1:]
		var as []Term
		for _, a := range e.Args {
			as = append(as, env.termOrLoad(env.eval(a)))
		}
		if strings.HasPrefix(fn, "clause_") && len(as) == 1 {
			// @clause_NAME(f): the contract of the function value f has a requires/ensures clause labelled NAME
			// (known for functions under contract, uninterpreted otherwise) - the generalisation of @needswrite
			vc.opaqueSort("Fn")
			if vc.clauseLabels == nil {
				vc.clauseLabels = map[string]bool{}
			}
			vc.clauseLabels[strings.TrimPrefix(fn, "clause_")] = true
			return SVal{T: mk("(|hasclause!"+strings.TrimPrefix(fn, "clause_")+"| "+as[0].S+")", sortBool), GoT: types.Typ[types.Bool]}
		}
		rs := vc.smtFunSort(fn)
		switch fn {
		case "be256":
			vc.needBE, rs = true, sortBV(256)
		case "bitlen256":
			vc.needBitLen, rs = true, sortBV(64)
		case "exp256":
			rs = sortBV(256)
		case "needswrite":
			vc.needNeedsWrite = true
			if len(as) == 1 {
				return SVal{T: mk("(needswrite "+as[0].S+")", sortBool), GoT: types.Typ[types.Bool]}
			}
		case "dv":
			vc.needStr, vc.needDigits, rs = true, true, sortReal
		case "is_int":
			rs = sortBool
		case "to_int":
			rs = sortInt
		case "dvalid":
			vc.needStr, vc.needDigits, rs = true, true, sortBool
		case "dpow10":
			vc.needStr, vc.needDigits, rs = true, true, sortInt
		case "beval":
			vc.needBytes, vc.needBeval, rs = true, true, sortInt
		case "beenc":
			vc.needBytes, rs = true, &Sort{K: SOpaque, Name: "Bytes"}
		case "tohash32":
			vc.needBytes, vc.needToHash, rs = true, true, &Sort{K: SOpaque, Name: "Bytes"}
		case "timedec":
			if vc.timeSort == nil {
				// (a callee's clause evaluated in a caller that decodes no time itself)
				var tt types.Type
				for _, sp := range vc.P.Pkgs {
					if sp == nil || sp.Pkg == nil {
						continue
					}
					for _, imp := range append([]*types.Package{sp.Pkg}, sp.Pkg.Imports()...) {
						if imp.Path() == "time" {
							if o := imp.Scope().Lookup("Time"); o != nil {
								tt = o.Type()
							}
						}
					}
					if tt != nil {
						break
					}
				}
				if tt == nil {
					env.fail("@timedec: package time is not among the loaded packages")
				}
				vc.declTimeDec(vc.sortOf(tt))
			}
			vc.needBytes, rs = true, vc.timeSort
		case "select":
			if len(as) == 2 && as[0].T != nil && as[0].T.K == SArray {
				return SVal{T: tSelect(as[0], as[1])}
			}
		case "store":
			if len(as) == 3 {
				return SVal{T: tStore(as[0], as[1], as[2])}
			}
		}
		if rs != nil && vc.smtFunSort(fn) == nil {
			return SVal{T: mk(app(fn, as...), rs)}
		}
		if rs == nil {
			env.fail("unknown SMT function %s (declare it with '//@ smt (define-fun ...)')", fn)
		}
		vc.useSMTFun(fn)
		if len(as) == 0 {
			return SVal{T: mk(fn, rs)}
		}
		return SVal{T: mk(app(fn, as...), rs)}
	}
	switch name {
	case "old":
		if env.old == nil {
			env.fail("old() not available here")
		}
		ne := *env
		ne.st = env.old
		ne.inOld = true
		// locals keep their meaning only for parameters
		return ne.eval(e.Args[0])
	case "len", "cap":
		x := env.eval(e.Args[0])
		if x.View != nil {
			return SVal{T: x.View.Len, GoT: types.Typ[types.Int]}
		}
		if x.GoT != nil {
			switch u := x.GoT.Underlying().(type) {
			case *types.Slice:
				acc := "sl-len"
				if name == "cap" {
					acc = "sl-cap"
				}
				return SVal{T: mk("("+acc+" "+x.T.S+")", vc.idxSort()), GoT: types.Typ[types.Int]}
			case *types.Array:
				return SVal{T: vc.idxLit(u.Len()), GoT: types.Typ[types.Int]}
			case *types.Basic:
				if isString(x.GoT) {
					return SVal{T: mk("(str-len "+x.T.S+")", vc.idxSort()), GoT: types.Typ[types.Int]}
				}
			case *types.Map:
				mv := vc.mapValue(env.st, x.T, u)
				return SVal{T: vc.mapAcc(u, "card", mv), GoT: types.Typ[types.Int]}
			case *types.Pointer:
				if a, ok := u.Elem().Underlying().(*types.Array); ok {
					return SVal{T: vc.idxLit(a.Len()), GoT: types.Typ[types.Int]}
				}
			}
		}
		env.fail("len of %s", e.Args[0])
	case "wide":
		x := env.eval(e.Args[0])
		t := env.termOrLoad(x)
		if t.T.K != SBV {
			return SVal{T: t, GoT: x.GoT}
		}
		sg := env.signedOf(x)
		ext := "zero_extend"
		if sg {
			ext = "sign_extend"
		}
		return SVal{T: mk(fmt.Sprintf("((_ %s %d) %s)", ext, t.T.Bits, t.S), sortBV(2*t.T.Bits)), Signed: &sg}
	case "zext", "sext":
		n := env.eval(e.Args[0])
		x := env.eval(e.Args[1])
		if x.Untyped != nil && vc.mode == ModeMath {
			return SVal{T: intLit(x.Untyped)}
		}
		t := env.termOrLoad(x)
		if vc.mode == ModeMath && t.T.K == SInt {
			return SVal{T: t}
		}
		if n.Untyped == nil || t.T.K != SBV {
			env.fail("%s(bits, bv)", name)
		}
		to := int(n.Untyped.Int64())
		if to < t.T.Bits {
			env.fail("%s target narrower than operand", name)
		}
		sg := name == "sext"
		if to == t.T.Bits {
			return SVal{T: t, Signed: &sg}
		}
		ext := "zero_extend"
		if sg {
			ext = "sign_extend"
		}
		return SVal{T: mk(fmt.Sprintf("((_ %s %d) %s)", ext, to-t.T.Bits, t.S), sortBV(to)), Signed: &sg}
	case "extract":
		hi, lo := env.eval(e.Args[0]), env.eval(e.Args[1])
		x := env.termOrLoad(env.eval(e.Args[2]))
		if hi.Untyped == nil || lo.Untyped == nil || x.T.K != SBV {
			env.fail("extract(hi, lo, bv)")
		}
		h, l := int(hi.Untyped.Int64()), int(lo.Untyped.Int64())
		return SVal{T: mk(fmt.Sprintf("((_ extract %d %d) %s)", h, l, x.S), sortBV(h-l+1))}
	case "concat":
		x, y := env.termOrLoad(env.eval(e.Args[0])), env.termOrLoad(env.eval(e.Args[1]))
		return SVal{T: mk(app("concat", x, y), sortBV(x.T.Bits+y.T.Bits))}
	case "rangeslice":
		// the slice a "for ... range" loop iterates over (it often has no name: range f())
		if env.fr == nil || env.atBlock == nil {
			env.fail("rangeslice() is only meaningful in a loop invariant")
		}
		for _, ins := range env.atBlock.Instrs {
			phi, ok := ins.(*ssa.Phi)
			if !ok {
				break
			}
			if phi.Comment != "rangeindex" {
				continue
			}
			// header: idx' = phi + 1; if idx' < len(X) ...
			for _, hi := range env.atBlock.Instrs {
				cmp, ok := hi.(*ssa.BinOp)
				if !ok || cmp.Op != token.LSS {
					continue
				}
				if call, ok := cmp.Y.(*ssa.Call); ok {
					if b, ok := call.Call.Value.(*ssa.Builtin); ok && b.Name() == "len" && len(call.Call.Args) == 1 {
						x := call.Call.Args[0]
						v := env.vc.operand(env.fr, env.st, x)
						return env.vc.sval(v, x.Type())
					}
				}
			}
		}
		env.fail("rangeslice(): this loop does not range over a slice")
		return SVal{}
	case "rangeidx":
		// the hidden index of the "for ... range" loop whose invariant is being evaluated
		if env.fr == nil || env.atBlock == nil {
			env.fail("rangeidx() is only meaningful in a loop invariant")
		}
		for _, ins := range env.atBlock.Instrs {
			phi, ok := ins.(*ssa.Phi)
			if !ok {
				break
			}
			if phi.Comment == "rangeindex" {
				if env.sub != nil {
					if x, ok := env.sub[phi]; ok {
						return SVal{T: x.T, GoT: types.Typ[types.Int]}
					}
				}
				return SVal{T: env.vc.operand(env.fr, env.st, phi).T, GoT: types.Typ[types.Int]}
			}
		}
		env.fail("rangeidx(): this loop is not a range loop")
		return SVal{}
	case "low64":
		// low 64 bits of a word
		x := env.termOrLoad(env.eval(e.Args[0]))
		if x.T.K == SBV {
			if x.T.Bits == 64 {
				return SVal{T: x, GoT: types.Typ[types.Uint64]}
			}
			return SVal{T: mk("((_ extract 63 0) "+x.S+")", sortBV(64)), GoT: types.Typ[types.Uint64]}
		}
		return SVal{T: mk(fmt.Sprintf("(mod %s %s)", x.S, pow2(64)), sortInt), GoT: types.Typ[types.Uint64]}
	case "signed":
		x := env.eval(e.Args[0])
		t := env.termOrLoad(x)
		sg := true
		return SVal{T: t, Signed: &sg}
	case "u256", "big", "val":
		x := env.eval(e.Args[0])
		if x.Untyped != nil {
			if name == "u256" {
				return SVal{T: bvLit(x.Untyped, 256)}
			}
			return SVal{T: intLit(x.Untyped)}
		}
		return SVal{T: env.termOrLoad(x)}
	case "ref":
		x := env.eval(e.Args[0])
		if x.P != nil {
			return SVal{T: env.term(x)}
		}
		if x.T.T != nil {
			switch x.T.T.K {
			case SSlice:
				return SVal{T: mk("(sl-ref "+x.T.S+")", sortRef)}
			case SIface:
				return SVal{T: mk("(iref "+x.T.S+")", sortRef)}
			case SRef:
				return SVal{T: x.T}
			}
		}
		env.fail("ref of non-reference")
	case "typeid":
		x := env.eval(e.Args[0])
		return SVal{T: mk("(ityp "+x.T.S+")", sortInt)}
	case "off":
		x := env.eval(e.Args[0])
		return SVal{T: env.view(x).Off, GoT: types.Typ[types.Int]}
	case "arr":
		x := env.eval(e.Args[0])
		return SVal{T: env.view(x).Arr}
	case "fresh":
		// fresh(x): reference allocated during the call
		x := env.eval(e.Args[0])
		var r Term
		if x.P != nil {
			r = env.term(x)
		} else if x.T.T.K == SSlice {
			r = mk("(sl-ref "+x.T.S+")", sortRef)
		} else {
			r = x.T
		}
		if env.old == nil {
			env.fail("fresh() needs a pre-state")
		}
		return SVal{T: mk(fmt.Sprintf("(>= %s %s)", r.S, env.old.top.S), sortBool)}
	case "all":
		// all(k, lo, hi, body): conjunction of body for the constants k = lo .. hi-1 (bounded, unrolled)
		if len(e.Args) != 4 || e.Args[0].Op != "id" {
			env.fail("all(k, lo, hi, body)")
		}
		lo, hi := env.eval(e.Args[1]), env.eval(e.Args[2])
		if lo.Untyped == nil || hi.Untyped == nil || hi.Untyped.Int64()-lo.Untyped.Int64() > 1024 {
			env.fail("all() needs constant bounds (at most 1024 instances)")
		}
		var cs []Term
		for k := lo.Untyped.Int64(); k < hi.Untyped.Int64(); k++ {
			ne := env.child()
			ne.names[e.Args[0].Name] = SVal{Untyped: big.NewInt(k)}
			b := ne.eval(e.Args[3])
			if b.T.T == nil || b.T.T.K != SBool {
				env.fail("all() body is not boolean")
			}
			cs = append(cs, b.T)
		}
		return SVal{T: tAnd(cs...)}
	case "decval", "decvalid":
		// decval(s): exact rational value of the decimal numeral s; decvalid(s): s is a valid numeral
		x := env.eval(e.Args[0])
		vc.needDecVal, vc.needStr = true, true
		if name == "decval" {
			return SVal{T: vc.decVal(x.T, "val")}
		}
		return SVal{T: vc.decVal(x.T, "valid")}
	case "istype", "unbox":
		// istype(x, T): the dynamic type of interface value x is T; unbox(x, T): its value (T a struct type
		// of the package, stored by value in the interface)
		if len(e.Args) != 2 {
			env.fail("%s(x, T)", name)
		}
		x := env.eval(e.Args[0])
		tn := e.Args[1].String()
		ptr := strings.HasPrefix(tn, "*")
		tn = strings.TrimPrefix(tn, "*")
		// slice_T: the slice type []T (the expression grammar has no type literals)
		isSlice := strings.HasPrefix(tn, "slice_")
		tn = strings.TrimPrefix(tn, "slice_")
		_, gt := env.binderSort(tn)
		if gt == nil {
			env.fail("unknown type %s", tn)
		}
		if isSlice {
			gt = types.NewSlice(gt)
		}
		var dt types.Type = gt
		if ptr {
			dt = types.NewPointer(gt)
		}
		if x.T.T == nil || x.T.T.K != SIface {
			env.fail("%s needs an interface value", name)
		}
		if name == "istype" {
			return SVal{T: tEq(mk("(ityp "+x.T.S+")", sortInt), mk(fmt.Sprint(vc.typeID(dt)), sortInt))}
		}
		if ptr {
			return vc.svalOfLoaded(mk("(iref "+x.T.S+")", sortRef), dt)
		}
		comp := vc.boxComp(dt)
		t := tSelect(vc.heapGet(env.st.heap, comp), mk("(iref "+x.T.S+")", sortRef))
		t.T = vc.sortOf(dt)
		return vc.svalOfLoaded(t, dt)
	case "samecomp":
		// samecomp("T"): no object of type T (or no map/ghost component of that name) differs from its old state
		if len(e.Args) != 1 {
			env.fail("samecomp(\"T\")")
		}
		tgt := vc.modTarget(env, &SExpr{Op: "call", Name: "heap", Args: []*SExpr{e.Args[0]}})
		if tgt.kind != "comp" {
			env.fail("samecomp: unknown component")
		}
		return SVal{T: tEq(vc.heapGet(env.st.heap, tgt.comp), vc.heapGet(env.old.heap, tgt.comp)), GoT: types.Typ[types.Bool]}
	case "ptr":
		// ptr(T, r): the pointer of type *T whose reference is the integer r (inverse of ref)
		if len(e.Args) != 2 {
			env.fail("ptr(T, ref)")
		}
		_, gt := env.binderSort(e.Args[0].String())
		if gt == nil {
			env.fail("unknown type %s", e.Args[0].String())
		}
		r := env.termOrLoad(env.eval(e.Args[1]))
		return vc.svalOfLoaded(r, types.NewPointer(gt))
	case "ghost":
		if len(e.Args) != 1 || e.Args[0].Op != "id" {
			env.fail("ghost(NAME)")
		}
		comp, ok := vc.ghostComp(e.Args[0].Name)
		if !ok {
			env.fail("undeclared ghost %s (use '//@ ghost NAME SORT')", e.Args[0].Name)
		}
		return SVal{T: vc.heapGet(env.st.heap, comp)}
	case "bytes":
		// bytes(s): abstract content of a byte slice or string
		x := env.eval(e.Args[0])
		if x.GoT != nil && isString(x.GoT) {
			vc.needBytes, vc.needStr = true, true
			return SVal{T: mk("(str-bytes "+x.T.S+")", &Sort{K: SOpaque, Name: "Bytes"})}
		}
		if x.GoT != nil {
			if at, ok := x.GoT.Underlying().(*types.Array); ok {
				// a byte array value: all of it
				return SVal{T: vc.bytesOf(env.termOrLoad(x), vc.idxLit(0), vc.idxLit(at.Len()))}
			}
		}
		vw := env.view(x)
		return SVal{T: vc.bytesOf(vw.Arr, vw.Off, vw.Len)}
	case "visited":
		// visited(k): in an invariant of a loop ranging over a map, key k has already been produced by the iteration
		if env.fr == nil || env.atBlock == nil || len(e.Args) != 1 {
			env.fail("visited(k) is only meaningful in the invariant of a map range loop")
		}
		for _, ins := range env.atBlock.Instrs {
			nx, ok := ins.(*ssa.Next)
			if !ok || nx.IsString {
				continue
			}
			it := vc.operand(env.fr, env.st, nx.Iter).T
			rs, comp := vc.iters[it.S], vc.iterComp[it.S]
			if rs == nil || comp == "" {
				break
			}
			k := env.coerce(env.eval(e.Args[0]), rs.mapT.Key())
			r := tSelect(vc.heapGet(env.st.heap, comp), k)
			r.T = sortBool
			return SVal{T: r, GoT: types.Typ[types.Bool]}
		}
		env.fail("visited(): this loop does not range over a map")
		return SVal{}
	case "has":
		// has(m, k): key k is present in map m
		m := env.eval(e.Args[0])
		mt, ok := m.GoT.Underlying().(*types.Map)
		if !ok {
			env.fail("has() needs a map")
		}
		mv := vc.mapValue(env.st, m.T, mt)
		k := env.coerce(env.eval(e.Args[1]), mt.Key())
		r := tSelect(vc.mapAcc(mt, "dom", mv), k)
		r.T = sortBool
		return SVal{T: tAnd(tNot(tEq(m.T, mk("0", sortRef))), r)}
	case "flag":
		// flag(IsProposal026): the fork flag read by common.IsProposal026()
		if len(e.Args) != 1 || e.Args[0].Op != "id" {
			env.fail("flag(Name)")
		}
		return SVal{T: vc.flagConst(e.Args[0].Name), GoT: types.Typ[types.Bool]}
	case "unchanged":
		// unchanged(s, lo, hi): elements lo..hi-1 of s hold the same values as in the pre-state
		// (quantified over the absolute array position so that callers can instantiate it)
		if env.old == nil || len(e.Args) != 3 {
			env.fail("unchanged(s, lo, hi) needs a pre-state")
		}
		sv := env.eval(e.Args[0])
		now := env.view(sv)
		oe := *env
		oe.st = env.old
		before := oe.view(sv)
		lo, hi := env.idxTerm(env.eval(e.Args[1])), env.idxTerm(env.eval(e.Args[2]))
		j := mk("|q!j|", vc.idxSort())
		rng := tAnd(vc.idxLe(vc.idxAdd(now.Off, lo), j), vc.idxLt(j, vc.idxAdd(now.Off, hi)))
		q := fmt.Sprintf("(forall ((|q!j| %s)) (! (=> %s (= (select %s |q!j|) (select %s |q!j|))) :pattern ((select %s |q!j|))))",
			vc.idxSort().Name, rng.S, now.Arr.S, before.Arr.S, now.Arr.S)
		return SVal{T: mk(q, sortBool)}
	case "seqeq":
		a, b := env.view(env.eval(e.Args[0])), env.view(env.eval(e.Args[1]))
		q := fmt.Sprintf("(and (= %s %s) (forall ((|q!k| %s)) (=> %s (= (select %s %s) (select %s %s)))))",
			a.Len.S, b.Len.S, vc.idxSort().Name, vc.inRange("|q!k|", a.Len.S),
			a.Arr.S, vc.idxAdd(a.Off, mk("|q!k|", vc.idxSort())).S, b.Arr.S, vc.idxAdd(b.Off, mk("|q!k|", vc.idxSort())).S)
		return SVal{T: mk(q, sortBool)}
	case "ite":
		c := env.eval(e.Args[0])
		x, y, _, gt := env.unify(env.eval(e.Args[1]), env.eval(e.Args[2]))
		return SVal{T: tIte(c.T, x, y), GoT: gt}
	case "real":
		x := env.eval(e.Args[0])
		if x.Untyped != nil {
			return SVal{T: mk(intLit(x.Untyped).S+".0", sortReal)}
		}
		t := env.termOrLoad(x)
		if t.T.K == SReal {
			return SVal{T: t}
		}
		return SVal{T: mk("(to_real "+t.S+")", sortReal)}
	case "Z":
		// mathematical value of a machine integer (math mode: identity; bv mode: not available)
		x := env.eval(e.Args[0])
		if x.Untyped != nil {
			return SVal{T: intLit(x.Untyped)}
		}
		t := env.termOrLoad(x)
		if vc.mode == ModeBV && t.T.K == SBV {
			signed := false
			if x.GoT != nil {
				if _, sg, ok := intInfo(x.GoT); ok {
					signed = sg
				}
			}
			if signed {
				return SVal{T: mk(fmt.Sprintf("(ite (bvslt %s (_ bv0 %d)) (- (bv2nat (bvneg %s))) (bv2nat %s))", t.S, t.T.Bits, t.S, t.S), sortInt)}
			}
			return SVal{T: mk("(bv2nat "+t.S+")", sortInt)}
		}
		return SVal{T: t}
	}
	// integer conversions T(x)
	if bt := basicByName(name); bt != nil && len(e.Args) == 1 {
		if tb, ts, ok := intInfo(bt); ok {
			x := env.eval(e.Args[0])
			if x.Untyped != nil {
				return SVal{T: vc.intConst(x.Untyped, tb), GoT: bt}
			}
			t := env.termOrLoad(x)
			if vc.mode == ModeBV {
				if t.T.K != SBV {
					env.fail("conversion of non-bit-vector")
				}
				fb := t.T.Bits
				fs := env.signedOf(x)
				return SVal{T: vc.convInt(nil, nil, t, fb, fs, tb, ts, 0), GoT: bt}
			}
			// math mode: conversions in specs are value preserving (the mathematical value)
			return SVal{T: t, GoT: bt}
		}
	}
	// named type conversions of the package, e.g. Kind(x)
	if env.pkg != nil && len(e.Args) == 1 && !strings.HasPrefix(name, ".") {
		if o := env.pkg.Scope().Lookup(name); o != nil {
			if tn, ok := o.(*types.TypeName); ok {
				x := env.eval(e.Args[0])
				if bits, _, ok := intInfo(tn.Type()); ok && x.Untyped != nil {
					return SVal{T: vc.intConst(x.Untyped, bits), GoT: tn.Type()}
				}
				return SVal{T: env.termOrLoad(x), GoT: tn.Type()}
			}
		}
	}
	// spec functions
	if sf, ok := vc.P.SpecFns[name]; ok {
		return env.callSpecFn(sf, e)
	}
	env.fail("unknown function %s", name)
	return SVal{}
}

func basicByName(n string) *types.Basic {
	if n == "byte" {
		return types.Typ[types.Uint8]
	}
	for _, b := range types.Typ {
		if b.Name() == n {
			return b
		}
	}
	return nil
}

// ---------------------------------------------------------------- spec functions

// specParamSorts expands a spec fn parameter list into SMT parameters.
func (env *SpecEnv) callSpecFn(sf *SpecFn, e *SExpr) SVal {
	vc := env.vc
	if sf.Macro {
		if len(e.Args) != len(sf.Params) {
			env.fail("%s expects %d arguments", sf.Name, len(sf.Params))
		}
		sub := *env
		sub.names = map[string]SVal{}
		for k, v := range env.names {
			sub.names[k] = v
		}
		sub.oldNames = map[string]SVal{}
		for k, v := range env.oldNames {
			sub.oldNames[k] = v
		}
		for i, p := range sf.Params {
			v := env.eval(e.Args[i])
			sub.names[p.Name] = v
			sub.oldNames[p.Name] = v
		}
		return sub.eval(sf.Expr)
	}
	vc.declareSpecFn(sf)
	if len(e.Args) != len(sf.Params) {
		env.fail("%s expects %d arguments", sf.Name, len(sf.Params))
	}
	var as []Term
	for i, p := range sf.Params {
		v := env.eval(e.Args[i])
		if strings.HasPrefix(p.Type, "[]") {
			vw := env.view(v)
			as = append(as, vw.Arr, vw.Off, vw.Len)
			continue
		}
		srt, gt := vc.specTypeSort(p.Type, sf.Pkg)
		if v.Untyped != nil {
			switch srt.K {
			case SBV:
				as = append(as, bvLit(v.Untyped, srt.Bits))
			case SReal:
				as = append(as, mk(intLit(v.Untyped).S+".0", sortReal))
			default:
				as = append(as, intLit(v.Untyped))
			}
			continue
		}
		_ = gt
		as = append(as, env.termOrLoad(v))
	}
	rs, rgt := vc.specTypeSort(sf.Ret, sf.Pkg)
	return SVal{T: mk(app(smtIdent("spec!"+sf.Name), as...), rs), GoT: rgt}
}

func (vc *VC) specTypeSort(tn string, pkgPath string) (*Sort, types.Type) {
	var pkg *types.Package
	if sp := vc.P.Pkgs[pkgPath]; sp != nil {
		pkg = sp.Pkg
	} else if vc.pkg != nil {
		// the declaring package is not part of this run (a contract of a dependent package names the function):
		// qualified type names are resolved in the scope of the package being verified instead
		pkg = vc.pkg.Pkg
	}
	env := &SpecEnv{vc: vc, pkg: pkg}
	var s *Sort
	var gt types.Type
	func() {
		defer func() {
			if r := recover(); r != nil {
				if _, ok := r.(specErr); ok {
					s = parseSortText(tn)
					return
				}
				panic(r)
			}
		}()
		s, gt = env.binderSort(tn)
	}()
	return s, gt
}

func (vc *VC) declareSpecFn(sf *SpecFn) {
	if vc.specFnDone[sf.Name] {
		return
	}
	vc.specFnDone[sf.Name] = true
	if strings.Contains(sf.Body, "ghost(") {
		// a defined function is state-independent; reading ghost state needs a macro (expanded in the current state)
		vc.errorf("%s:%d: spec fn %s reads ghost state: declare it 'spec macro fn'", shortPath(sf.File), sf.Line, sf.Name)
	}
	var pkg *types.Package
	if sp := vc.P.Pkgs[sf.Pkg]; sp != nil {
		pkg = sp.Pkg
	}
	env := &SpecEnv{vc: vc, names: map[string]SVal{}, pkg: pkg, st: &State{reach: tTrue, heap: &Heap{known: map[string]Term{}, ep: vc.constEpoch}, top: mk("0", sortRef)}}
	var ps []string
	for _, p := range sf.Params {
		if strings.HasPrefix(p.Type, "[]") {
			es, egt := vc.specTypeSort(p.Type[2:], sf.Pkg)
			an, on, ln := smtIdent("p!"+p.Name+"!arr"), smtIdent("p!"+p.Name+"!off"), smtIdent("p!"+p.Name+"!len")
			as := sortArray(vc.idxSort(), es)
			ps = append(ps, fmt.Sprintf("(%s %s) (%s %s) (%s %s)", an, as.Name, on, vc.idxSort().Name, ln, vc.idxSort().Name))
			if egt == nil {
				egt = types.Typ[types.Uint8]
			}
			env.names[p.Name] = SVal{View: &SliceView{Arr: mk(an, as), Off: mk(on, vc.idxSort()), Len: mk(ln, vc.idxSort()), Elem: egt}}
			continue
		}
		s, gt := vc.specTypeSort(p.Type, sf.Pkg)
		n := smtIdent("p!" + p.Name)
		ps = append(ps, fmt.Sprintf("(%s %s)", n, s.Name))
		env.names[p.Name] = SVal{T: mk(n, s), GoT: gt}
	}
	rs, _ := vc.specTypeSort(sf.Ret, sf.Pkg)
	if sf.Abstract {
		var psorts []string
		for _, p := range ps {
			for _, one := range splitSexp(p) {
				inner := splitSexp(one[1 : len(one)-1])
				psorts = append(psorts, strings.Join(inner[1:], " "))
			}
		}
		vc.specFnDecl = append(vc.specFnDecl, fmt.Sprintf("(declare-fun %s (%s) %s)", smtIdent("spec!"+sf.Name), strings.Join(psorts, " "), rs.Name))
		return
	}
	var body Term
	func() {
		defer func() {
			if r := recover(); r != nil {
				if se, ok := r.(specErr); ok {
					vc.errorf("%s:%d: spec fn %s: %s", shortPath(sf.File), sf.Line, sf.Name, se.msg)
					body = vc.zeroOfSort(rs, nil)
					return
				}
				panic(r)
			}
		}()
		v := env.eval(sf.Expr)
		if v.Untyped != nil {
			switch rs.K {
			case SBV:
				body = bvLit(v.Untyped, rs.Bits)
			default:
				body = intLit(v.Untyped)
			}
		} else {
			body = env.termOrLoad(v)
		}
	}()
	for comp := range env.st.heap.known {
		// a defined function is state-independent: a body that reads mutable memory (pointed-to structs, backing
		// arrays, maps) would be evaluated in one fixed unknown heap - it has to be a macro
		if strings.HasPrefix(comp, "P:") || strings.HasPrefix(comp, "A:") || strings.HasPrefix(comp, "M:") {
			vc.errorf("%s:%d: spec fn %s reads the heap (%s): declare it 'spec macro fn'", shortPath(sf.File), sf.Line, sf.Name, comp)
			break
		}
	}
	kw := "define-fun"
	if sf.Rec {
		kw = "define-fun-rec"
	}
	if sf.Opaque && !vc.revealed[sf.Name] {
		// opaque: uninterpreted unless the function under verification reveals it
		var psorts []string
		for _, p := range ps {
			for _, one := range splitSexp(p) {
				inner := splitSexp(one[1 : len(one)-1])
				psorts = append(psorts, strings.Join(inner[1:], " "))
			}
		}
		decl := fmt.Sprintf("(declare-fun %s (%s) %s)", smtIdent("spec!"+sf.Name), strings.Join(psorts, " "), rs.Name)
		vc.specFnDecl = append(vc.specFnDecl, decl)
		vc.opaqueDefs[decl] = fmt.Sprintf("(%s %s (%s) %s %s)", kw, smtIdent("spec!"+sf.Name), strings.Join(ps, " "), rs.Name, body.S)
		return
	}
	vc.specFnDecl = append(vc.specFnDecl, fmt.Sprintf("(%s %s (%s) %s %s)", kw, smtIdent("spec!"+sf.Name), strings.Join(ps, " "), rs.Name, body.S))
}
