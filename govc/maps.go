package main

import (
	"fmt"
	"go/types"

	"golang.org/x/tools/go/ssa"
)

// Maps: a map value is a Ref into component M:<K>-><V> whose objects are datatype values
// (mk-map dom val card): dom : Array K Bool, val : Array K V, card : Idx (ghost cardinality).

type mapInfo struct {
	sort *Sort
	comp string
	ks   *Sort
	vs   *Sort
}

func (vc *VC) mapInfoOf(m *types.Map) *mapInfo {
	key := typeKey(m)
	if mi, ok := vc.maps[key]; ok {
		return mi
	}
	ks, vs := vc.sortOf(m.Key()), vc.sortOf(m.Elem())
	sname := smtIdent("Map!" + key)
	vc.sortDecls = append(vc.sortDecls, fmt.Sprintf("(declare-datatypes ((%s 0)) (((%s (%s (Array %s Bool)) (%s (Array %s %s)) (%s %s)))))",
		sname, smtIdent("mk-map!"+key), smtIdent("mdom!"+key), ks.Name, smtIdent("mval!"+key), ks.Name, vs.Name, smtIdent("mcard!"+key), vc.idxSort().Name))
	mi := &mapInfo{sort: &Sort{K: SMapV, Name: sname}, comp: "M:" + key, ks: ks, vs: vs}
	vc.maps[key] = mi
	vc.registerComp(mi.comp, sortArray(sortRef, mi.sort))
	return mi
}

// mapValue returns the current map object for the map reference ref; accessors are written
// (mdom x), (mval x), (mcard x) by callers and rewritten here to the type-specific accessors.
func (vc *VC) mapValue(st *State, ref Term, m *types.Map) Term {
	mi := vc.mapInfoOf(m)
	return tSelect(vc.heapGet(st.heap, mi.comp), ref)
}

func (vc *VC) mapAcc(m *types.Map, which string, mv Term) Term {
	key := typeKey(m)
	mi := vc.mapInfoOf(m)
	switch which {
	case "dom":
		return mk(fmt.Sprintf("(%s %s)", smtIdent("mdom!"+key), mv.S), sortArray(mi.ks, sortBool))
	case "val":
		return mk(fmt.Sprintf("(%s %s)", smtIdent("mval!"+key), mv.S), sortArray(mi.ks, mi.vs))
	}
	return mk(fmt.Sprintf("(%s %s)", smtIdent("mcard!"+key), mv.S), vc.idxSort())
}

func (vc *VC) mkMap(m *types.Map, dom, val, card Term) Term {
	key := typeKey(m)
	mi := vc.mapInfoOf(m)
	return mk(fmt.Sprintf("(%s %s %s %s)", smtIdent("mk-map!"+key), dom.S, val.S, card.S), mi.sort)
}

func (vc *VC) makeMap(fr *Frame, st *State, x *ssa.MakeMap) {
	m := x.Type().Underlying().(*types.Map)
	mi := vc.mapInfoOf(m)
	ref := st.top
	st.top = vc.define("top", mk(fmt.Sprintf("(+ %s 1)", ref.S), sortRef))
	h := vc.heapGet(st.heap, mi.comp)
	empty := vc.mkMap(m, mk(fmt.Sprintf("((as const (Array %s Bool)) false)", mi.ks.Name), nil),
		mk(fmt.Sprintf("((as const (Array %s %s)) %s)", mi.ks.Name, mi.vs.Name, vc.zeroOf(m.Elem()).S), nil), vc.idxLit(0))
	vc.heapSet(st, mi.comp, vc.define(mi.comp, tStore(h, ref, empty)))
	vc.setVal(fr, x, Val{T: ref})
}

func (vc *VC) mapUpdate(fr *Frame, st *State, x *ssa.MapUpdate) {
	m := x.Map.Type().Underlying().(*types.Map)
	mi := vc.mapInfoOf(m)
	ref := vc.operand(fr, st, x.Map).T
	k := vc.valTerm(vc.operand(fr, st, x.Key), m.Key())
	v := vc.valTerm(vc.operand(fr, st, x.Value), m.Elem())
	vc.oblige(st, fr, "safe.nilmap", "", tNot(tEq(ref, mk("0", sortRef))), "assignment to entry in nil map", x.Pos())
	h := vc.heapGet(st.heap, mi.comp)
	mv := vc.define("mapv", tSelect(h, ref))
	dom, val, card := vc.mapAcc(m, "dom", mv), vc.mapAcc(m, "val", mv), vc.mapAcc(m, "card", mv)
	present := tSelect(dom, k)
	present.T = sortBool
	ncard := tIte(present, card, vc.idxAdd(card, vc.idxLit(1)))
	nm := vc.mkMap(m, tStore(dom, k, tTrue), tStore(val, k, v), ncard)
	vc.heapSet(st, mi.comp, vc.define(mi.comp, tStore(h, ref, nm)))
}

func (vc *VC) mapDelete(fr *Frame, st *State, cc *ssa.CallCommon, args []Val) {
	m := cc.Args[0].Type().Underlying().(*types.Map)
	mi := vc.mapInfoOf(m)
	ref := args[0].T
	k := vc.valTerm(args[1], m.Key())
	h := vc.heapGet(st.heap, mi.comp)
	mv := vc.define("mapv", tSelect(h, ref))
	dom, val, card := vc.mapAcc(m, "dom", mv), vc.mapAcc(m, "val", mv), vc.mapAcc(m, "card", mv)
	present := tSelect(dom, k)
	present.T = sortBool
	ncard := tIte(present, vc.idxSub(card, vc.idxLit(1)), card)
	nm := vc.mkMap(m, tStore(dom, k, tFalse), val, ncard)
	// deleting from a nil map is a no-op
	nh := tIte(tEq(ref, mk("0", sortRef)), h, tStore(h, ref, nm))
	vc.heapSet(st, mi.comp, vc.define(mi.comp, nh))
}

func (vc *VC) lookup(fr *Frame, st *State, x *ssa.Lookup) {
	if isString(x.X.Type()) {
		s := vc.operand(fr, st, x.X).T
		i := vc.toIdx(vc.operand(fr, st, x.Index).T, x.Index.Type())
		vc.boundsCheck(fr, st, i, mk("(str-len "+s.S+")", vc.idxSort()), x.Pos(), "index")
		vc.setVal(fr, x, Val{T: mk(fmt.Sprintf("(str-at %s %s)", s.S, i.S), vc.intSort(8))})
		return
	}
	m := x.X.Type().Underlying().(*types.Map)
	ref := vc.operand(fr, st, x.X).T
	k := vc.valTerm(vc.operand(fr, st, x.Index), m.Key())
	mv := vc.define("mapv", vc.mapValue(st, ref, m))
	dom, val := vc.mapAcc(m, "dom", mv), vc.mapAcc(m, "val", mv)
	isNil := tEq(ref, mk("0", sortRef))
	present := tSelect(dom, k)
	present.T = sortBool
	ok := vc.define(x.Name()+"!ok", tAnd(tNot(isNil), present))
	raw := tSelect(val, k)
	raw.T = vc.sortOf(m.Elem())
	v := vc.define(x.Name(), tIte(ok, raw, vc.zeroOf(m.Elem())))
	vc.assumeLoaded(st, v, m.Elem())
	rv := vc.mkVal(v, m.Elem())
	if x.CommaOk {
		vc.setVal(fr, x, Val{Tup: []Val{rv, {T: ok}}})
		return
	}
	vc.setVal(fr, x, rv)
}

// ---------------------------------------------------------------- range over maps
//
// "range m" visits the keys of m in an arbitrary order. The iterator is a ghost set of visited keys:
// Next() picks any key of the (current) domain not visited before. Loop invariants can talk about the
// visited set through the spec functions visited(it-var) ... ; for order-independence proofs the
// commute obligations are generated separately (see commute.go).

type rangeState struct {
	mapT    *types.Map
	ref     Term
	visited Term // Array K Bool
	isStr   bool
}

func (vc *VC) rangeInit(fr *Frame, st *State, x *ssa.Range) {
	if isString(x.X.Type()) {
		vc.errorf("range over string is outside the subset")
		vc.setVal(fr, x, Val{T: vc.declFresh("iter", vc.opaqueSort("Iter"))})
		return
	}
	m := x.X.Type().Underlying().(*types.Map)
	mi := vc.mapInfoOf(m)
	ref := vc.operand(fr, st, x.X).T
	it := vc.declFresh("iter", vc.opaqueSort("Iter"))
	comp := "L:iter!" + it.S
	vc.registerComp(comp, sortArray(mi.ks, sortBool))
	st.heap.known[comp] = mk(fmt.Sprintf("((as const (Array %s Bool)) false)", mi.ks.Name), sortArray(mi.ks, sortBool))
	vc.iters[it.S] = &rangeState{mapT: m, ref: ref}
	vc.iterComp[it.S] = comp
	vc.setVal(fr, x, Val{T: it})
}

func (vc *VC) rangeNext(fr *Frame, st *State, x *ssa.Next) {
	it := vc.operand(fr, st, x.Iter).T
	rs := vc.iters[it.S]
	if rs == nil {
		vc.errorf("Next on unknown iterator")
		vc.setVal(fr, x, vc.freshVal(st, x.Name(), x.Type()))
		return
	}
	m := rs.mapT
	comp := vc.iterComp[it.S]
	visited := vc.heapGet(st.heap, comp)
	mv := vc.define("mapv", vc.mapValue(st, rs.ref, m))
	dom, val := vc.mapAcc(m, "dom", mv), vc.mapAcc(m, "val", mv)
	ok := vc.declFresh(x.Name()+"!ok", sortBool)
	k := vc.declFresh(x.Name()+"!k", vc.sortOf(m.Key()))
	if fk, forced := vc.forcedKey[it.S]; forced {
		// hypothetical iteration of a commute obligation: this step yields the given key
		ok, k = tTrue, fk
	}
	// ok => k in dom and not visited;  !ok => every key of dom is visited
	inDom := tSelect(dom, k)
	inDom.T = sortBool
	vis := tSelect(visited, k)
	vis.T = sortBool
	vc.assume(st, tImp(ok, tAnd(inDom, tNot(vis), tNot(tEq(rs.ref, mk("0", sortRef))))))
	ks := vc.sortOf(m.Key())
	if fr.contract != nil && fr.contract.opt("maporder") && fr.depth == 0 && !vc.inCommute && fr.loops[x.Block()] == nil {
		// "option maporder": a range step that is not the head of a loop (the body always leaves after the first
		// key) picks whichever key Go visits first - only a map with no other key makes that choice unique
		only := mk(fmt.Sprintf("(forall ((|q!mk| %s)) (=> (select %s |q!mk|) (= |q!mk| %s)))", ks.Name, dom.S, k.S), sortBool)
		vc.oblige(st, fr, "maporder.first", "", tImp(ok, only), "the first key of a map range is used without visiting the others: the choice depends on Go's map order", x.Pos())
	}
	vc.assume(st, tImp(tNot(ok), mk(fmt.Sprintf("(forall ((|q!mk| %s)) (=> (select %s |q!mk|) (select %s |q!mk|)))", ks.Name, dom.S, visited.S), sortBool)))
	st.heap.known[comp] = vc.define("visited", tIte(ok, tStore(visited, k, tTrue), visited))
	vc.written[comp] = true
	raw := tSelect(val, k)
	raw.T = vc.sortOf(m.Elem())
	v := vc.define(x.Name()+"!v", raw)
	vc.assumeLoaded(st, v, m.Elem())
	vc.assumeLoaded(st, k, m.Key())
	vc.setVal(fr, x, Val{Tup: []Val{{T: ok}, vc.mkVal(k, m.Key()), vc.mkVal(v, m.Elem())}})
}
