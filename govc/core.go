package main

import (
	"fmt"
	"go/token"
	"go/types"
	"sort"
	"strings"

	"golang.org/x/tools/go/ssa"
)

// ---------------------------------------------------------------- values and places

type BaseKind int

const (
	BLocal  BaseKind = iota // local alloc that never escapes: component L:<id>
	BPtr                    // *T object in heap component P:<T>, addressed by Ref
	BArr                    // array object in component A:<E> (slice backing arrays), addressed by Ref
	BGlobal                 // package-level variable, component G:<name>
)

type PathElem struct {
	IsIndex bool
	Field   int
	Index   Term
	Cont    types.Type // type of the container this element selects from
}

// Place is a symbolic address: a heap component, a reference into it and a path.
type Place struct {
	Kind BaseKind
	Comp string      // component name
	Ref  Term        // BPtr/BArr
	Root types.Type  // type of the object stored at the root (for BArr: element type)
	Path []PathElem
	Typ  types.Type // pointee type
}

func (p *Place) extend(e PathElem, t types.Type) *Place {
	np := *p
	np.Path = append(append([]PathElem{}, p.Path...), e)
	np.Typ = t
	return &np
}

// Val is the generator-level value of an SSA value.
type Val struct {
	T   Term
	P   *Place // pointer-typed values
	Tup []Val  // tuples
}

func (v Val) isPlace() bool { return v.P != nil }

// ---------------------------------------------------------------- heap and state

type epoch struct {
	id     int
	consts map[string]Term
	merge  []mergeArm // if non-nil: lazily merged from parents
}

type mergeArm struct {
	cond Term
	h    *Heap
}

// Heap maps component names to terms; unknown components are resolved lazily through the epoch.
type Heap struct {
	known map[string]Term
	ep    *epoch
}

type State struct {
	reach Term
	heap  *Heap
	top   Term // allocation counter: every live reference is < top
	chk   map[string]bool
}

func (s *State) checked(k string) bool { return s.chk != nil && s.chk[k] }
func (s *State) mark(k string) {
	if s.chk == nil {
		s.chk = map[string]bool{}
	}
	s.chk[k] = true
}

func (s *State) clone() *State {
	nh := &Heap{known: make(map[string]Term, len(s.heap.known)), ep: s.heap.ep}
	for k, v := range s.heap.known {
		nh.known[k] = v
	}
	nc := make(map[string]bool, len(s.chk))
	for k, v := range s.chk {
		nc[k] = v
	}
	return &State{reach: s.reach, heap: nh, top: s.top, chk: nc}
}

// ---------------------------------------------------------------- obligations

type Obligation struct {
	vc       *VC
	Name     string
	Kind     string
	Func     string
	Prefix   int
	Reach    Term
	Goal     Term
	Src      string
	Pos      token.Position
	Trivial  bool
	Expect   string // "unsat" (proof) or "sat" (vacuity/cover)
	Result   string
	Solver   string
	TimeS    float64
	Output   string
	Model    string
	Script   string
	Inputs   []ModelVar
	Property []string
}

type ModelVar struct {
	Name string // Go-level name (parameter)
	SMT  string // SMT constant
	Kind string // "bv","int","bool","slice","ref"...
	Type string
}

// ---------------------------------------------------------------- VC: one function under verification

type Frame struct {
	fn       *ssa.Function
	contract *Contract
	vals     map[ssa.Value]Val
	args     []Val
	id       int
	depth    int
	parent   *Frame
	// per block entry/exit bookkeeping
	edges   map[[2]int]*edgeInfo
	exits   []retInfo
	loops   map[*ssa.BasicBlock]*loopInfo
	order   []*ssa.BasicBlock
	entryOf map[*ssa.BasicBlock]*State
	exitOf  map[*ssa.BasicBlock]*State
	prefix  string
	entrySt *State // state at function entry (for old())
	debug   map[*ssa.BasicBlock][]debugRef
	freeVar map[string]Val
	defers  []deferRec // deferred calls recorded on the way (executed at RunDefers, last first)
}

// deferRec: a defer statement met while executing the frame. guard is the reach condition of the statement:
// in any model it is true exactly when the path taken passes through the statement.
type deferRec struct {
	instr *ssa.Defer
	guard Term
}

type debugRef struct {
	idx    int
	obj    types.Object
	val    ssa.Value
	isAddr bool
}

type edgeInfo struct {
	cond Term
	st   *State
}

type retInfo struct {
	st      *State
	results []Val
	pos     token.Pos
}

type loopInfo struct {
	writeRefs map[string]map[string]bool
	writeFields map[string]map[string]map[int]bool
	preText   string
	measure Val
	header  *ssa.BasicBlock
	blocks  map[*ssa.BasicBlock]bool
	ordinal int
	backs   []*ssa.BasicBlock
}

type VC struct {
	P     *Prog
	mode  Mode
	top   *Frame
	fn    *ssa.Function
	out   []string
	obls  []*Obligation
	nmCnt map[string]int
	oblCnt map[string]int

	sortDecls   []string
	opaque      map[string]*Sort
	structs     map[string]*structInfo
	strLits     map[string]Term
	strLitOrder []string
	needStr     bool
	compSort    map[string]*Sort
	epochN      int
	frameN      int
	written     map[string]bool // components written (for loop havoc dry runs)
	writeAll    bool
	dry         int
	errs        []string
	notes       map[string]int // dropped/abstracted constructs
	havocCalls  map[string]int
	usedContracts map[string]bool
	trusted     map[string]bool
	typeIDs     map[string]int
	specFnDone  map[string]bool
	specFnDecl  []string
	mathInts    bool
	inputs      []ModelVar
	pkg         *ssa.Package
	uf          map[string]bool
	constDecls  []string
	needNeedsWrite   bool
	clauseLabels     map[string]bool      // labels asked about with @clause_NAME(f)
	fnConsts         map[string]*Contract // function constants declared so far, with their contracts (nil: none)
	needsWriteAxioms []string // facts about function constants: does the contract demand a non-static context
	pendingThis     *Val // struct holding the function value of a field-function call (bound to "this" in its contract)
	pendingThisType types.Type
	constEpoch  *epoch
	closures    map[string]*ssa.MakeClosure
	closureBind map[string][]Val
	allocs      []allocRec
	effectFree  map[string]int
	inlined     map[string]int
	defs        map[string]string
	maps        map[string]*mapInfo
	iters       map[string]*rangeState
	iterComp    map[string]string
	libUsed     map[string]int
	needBitLen  bool
	needBE      bool
	needWTS     bool
	smtFuns     map[string]*Sort
	smtUsed     map[string]bool
	prelude     []*preludeEntry
	sentinels   []Term
	flagsUsed   []string
	decConsts   map[string]Term
	caseTag     string
	caseParam   string
	caseValue   int64
	bigConsts   map[string]int64
	needDecVal  bool
	globalInits []globalInit
	needDigits  bool
	needBeval   bool
	needToHash  bool
	inCommute   bool            // inside the hypothetical iterations of a commute obligation
	pureDecl    map[string]bool
	resolveDepth int
	needPadLemma bool // a byte copy was modelled in math mode: the window axioms are part of the prelude
	timeSort    *Sort // sort of time.Time once timedec has been declared
	commuteKeys map[string][]Val // "@loopN." -> the two keys of that loop's commute obligations (key1/key2 in a finding's class)
	commuteKeyT map[string]types.Type
	forcedKey   map[string]Term // map iterator -> key the next range step must yield (commute.go)
	digitTheory bool
	needBytes   bool
	frameOn     bool
	topEntry    Term
	modRefs     map[string][]Term
	modWhole    map[string]bool
	loopNest    int
	curState    *State
	writtenRefs map[string]map[string]bool
	pendingRef  string
	// field-level write tracking for loops: comp -> ref -> set of struct field indexes written (-1: the whole
	// object or something that is not a field of the object's struct); compStruct: the struct type of a component
	pendingField  int
	pendingCont   types.Type
	writtenFields map[string]map[string]map[int]bool
	compStruct    map[string]types.Type
	opaqueDefs  map[string]string
	scriptHeader string
	flagValues  map[string]bool
	revealed    map[string]bool
	sentinelSeen map[string]bool
}

func newVC(P *Prog, fn *ssa.Function, mode Mode) *VC {
	vc := &VC{P: P, mode: mode, fn: fn, nmCnt: map[string]int{}, oblCnt: map[string]int{}, opaque: map[string]*Sort{},
		structs: map[string]*structInfo{}, strLits: map[string]Term{}, compSort: map[string]*Sort{},
		written: map[string]bool{}, notes: map[string]int{}, havocCalls: map[string]int{}, usedContracts: map[string]bool{},
		trusted: map[string]bool{}, typeIDs: map[string]int{}, specFnDone: map[string]bool{}, uf: map[string]bool{}}
	vc.constEpoch = &epoch{id: 0, consts: map[string]Term{}}
	vc.sentinelSeen = map[string]bool{}
	vc.revealed = map[string]bool{}
	vc.decConsts = map[string]Term{}
	vc.bigConsts = map[string]int64{}
	vc.opaqueDefs = map[string]string{}
	vc.closures, vc.closureBind = map[string]*ssa.MakeClosure{}, map[string][]Val{}
	vc.effectFree, vc.inlined, vc.defs = map[string]int{}, map[string]int{}, map[string]string{}
	vc.maps, vc.iters, vc.iterComp, vc.libUsed = map[string]*mapInfo{}, map[string]*rangeState{}, map[string]string{}, map[string]int{}
	vc.smtFuns, vc.smtUsed, vc.prelude = smtSortsGlobal, map[string]bool{}, preludeGlobal
	if fn != nil {
		vc.pkg = fn.Pkg
		if vc.pkg == nil && fn.Parent() != nil {
			vc.pkg = fn.Parent().Pkg
		}
	}
	return vc
}

func (vc *VC) errorf(f string, a ...interface{}) {
	vc.errs = append(vc.errs, fmt.Sprintf(f, a...))
}

func (vc *VC) note(s string) { vc.notes[s]++ }

func (vc *VC) fresh(base string) string {
	vc.nmCnt[base]++
	return smtIdent(fmt.Sprintf("%s@%d", base, vc.nmCnt[base]))
}

func (vc *VC) emit(s string) { vc.out = append(vc.out, s) }

func (vc *VC) declFresh(base string, s *Sort) Term {
	n := vc.fresh(base)
	vc.emit(fmt.Sprintf("(declare-const %s %s)", n, s.Name))
	return mk(n, s)
}

// define introduces a named constant equal to t (keeps the script linear in size).
func (vc *VC) define(base string, t Term) Term {
	if len(t.S) < 48 {
		return t
	}
	n := vc.fresh(base)
	vc.emit(fmt.Sprintf("(declare-const %s %s)", n, t.T.Name))
	vc.emit(fmt.Sprintf("(assert (= %s %s))", n, t.S))
	vc.defs[n] = t.S
	return mk(n, t.T)
}

func (vc *VC) assume(st *State, fact Term) {
	if fact.S == "true" {
		return
	}
	vc.emit("(assert " + tImp(st.reach, fact).S + ")")
}

func (vc *VC) assumeGlobal(fact Term) {
	if fact.S == "true" {
		return
	}
	vc.emit("(assert " + fact.S + ")")
}

// oblige records a proof obligation: under st.reach, goal must hold. Afterwards the goal is assumed.
func (vc *VC) oblige(st *State, fr *Frame, kind, tag string, goal Term, src string, pos token.Pos) *Obligation {
	fname := "?"
	if vc.fn != nil {
		fname = shortFuncName(vc.fn)
	} else if vc.top != nil && vc.top.prefix != "" {
		fname = vc.top.prefix
	}
	base := kind
	if tag != "" {
		base += "@" + tag
	}
	if fr != nil && fr.depth > 0 {
		base += "~" + funcKey(fr.fn)
	}
	vc.oblCnt[base]++
	name := fmt.Sprintf("%s#%s", fname, base)
	if vc.oblCnt[base] > 1 || !strings.Contains(kind, ".") && tag == "" {
		name = fmt.Sprintf("%s#%s.%d", fname, base, vc.oblCnt[base])
	}
	if vc.caseTag != "" {
		name += vc.caseTag
	}
	o := &Obligation{vc: vc, Name: name, Kind: kind, Func: fname, Prefix: len(vc.out), Reach: st.reach, Goal: goal, Src: src, Expect: "unsat"}
	if pos.IsValid() {
		o.Pos = vc.P.Fset.Position(pos)
	}
	if goal.S == "true" || st.reach.S == "false" {
		o.Trivial = true
	}
	if strings.HasPrefix(kind, "safe.") && kind != "safe.overflow" && vc.top != nil && vc.top.contract != nil && vc.top.contract.opt("nosafety") {
		// "option nosafety": the memory-safety conditions of this function rest on a structural invariant of its
		// data that is not under contract; they are assumed (recorded once) and only the functional clauses are decided
		vc.trusted[fname+": memory-safety conditions (index, nil, type assertion; not arithmetic overflow) assumed, not proved (option nosafety)"] = true
		vc.assume(st, goal)
		return o
	}
	if vc.dry == 0 {
		vc.obls = append(vc.obls, o)
	}
	vc.assume(st, goal)
	return o
}

func shortFuncName(fn *ssa.Function) string {
	p := fnPkgPath(fn)
	if i := strings.LastIndex(p, "/"); i >= 0 {
		p = p[i+1:]
	}
	return p + "." + funcKey(fn)
}

// ---------------------------------------------------------------- heap access

func (vc *VC) newEpoch() *epoch {
	vc.epochN++
	return &epoch{id: vc.epochN, consts: map[string]Term{}}
}

func (vc *VC) heapGet(h *Heap, comp string) Term {
	if t, ok := h.known[comp]; ok {
		return t
	}
	t := vc.epochGet(h.ep, comp)
	h.known[comp] = t
	return t
}

func (vc *VC) epochGet(ep *epoch, comp string) Term {
	if t, ok := ep.consts[comp]; ok {
		return t
	}
	if vc.isConstComp(comp) && ep != vc.constEpoch {
		return vc.epochGet(vc.constEpoch, comp)
	}
	srt := vc.compSort[comp]
	if srt == nil {
		panic("unknown heap component " + comp)
	}
	var t Term
	if ep.merge != nil {
		var ts []Term
		same := true
		for _, arm := range ep.merge {
			x := vc.heapGet(arm.h, comp)
			ts = append(ts, x)
			if x.S != ts[0].S {
				same = false
			}
		}
		if same {
			t = ts[0]
		} else {
			acc := ts[len(ts)-1]
			for i := len(ts) - 2; i >= 0; i-- {
				acc = tIte(ep.merge[i].cond, ts[i], acc)
			}
			t = vc.define(comp+"!m", acc)
		}
	} else {
		n := smtIdent(fmt.Sprintf("%s!e%d", comp, ep.id))
		vc.constDecls = append(vc.constDecls, fmt.Sprintf("(declare-const %s %s)", n, srt.Name))
		t = mk(n, srt)
	}
	ep.consts[comp] = t
	return t
}

func (vc *VC) heapSet(st *State, comp string, t Term) {
	st.heap.known[comp] = t
	vc.written[comp] = true
	vc.loopWriteCheck(st, comp, vc.pendingRef, tTrue)
	// a write that does not go through setRoot is not attributable to one reference
	if vc.pendingRef == "" {
		vc.noteWriteRef(comp, "*")
	} else {
		vc.noteWriteRef(comp, vc.pendingRef)
	}
}

func (vc *VC) noteWriteRef(comp, ref string) {
	if vc.writtenRefs == nil {
		vc.writtenRefs = map[string]map[string]bool{}
	}
	if vc.writtenRefs[comp] == nil {
		vc.writtenRefs[comp] = map[string]bool{}
	}
	vc.writtenRefs[comp][ref] = true
	f := -1
	if vc.pendingCont != nil {
		f = vc.pendingField
		if vc.compStruct == nil {
			vc.compStruct = map[string]types.Type{}
		}
		vc.compStruct[comp] = vc.pendingCont
	}
	vc.noteWriteField(comp, ref, f)
}

func (vc *VC) noteWriteField(comp, ref string, f int) {
	if vc.writtenFields == nil {
		vc.writtenFields = map[string]map[string]map[int]bool{}
	}
	if vc.writtenFields[comp] == nil {
		vc.writtenFields[comp] = map[string]map[int]bool{}
	}
	if vc.writtenFields[comp][ref] == nil {
		vc.writtenFields[comp][ref] = map[int]bool{}
	}
	vc.writtenFields[comp][ref][f] = true
}

// registerComp declares the value sort of a heap component.
func (vc *VC) registerComp(comp string, s *Sort) {
	if _, ok := vc.compSort[comp]; !ok {
		vc.compSort[comp] = s
	}
}

func (vc *VC) ptrComp(t types.Type) string {
	comp := "P:" + typeKey(t)
	vc.registerComp(comp, sortArray(sortRef, vc.sortOf(t)))
	return comp
}

func (vc *VC) arrComp(elem types.Type) string {
	comp := "A:" + typeKey(elem)
	vc.registerComp(comp, sortArray(sortRef, sortArray(vc.idxSort(), vc.sortOf(elem))))
	return comp
}

func (vc *VC) globalComp(g *ssa.Global) string {
	comp := "G:" + g.Pkg.Pkg.Path() + "." + g.Name()
	vc.registerComp(comp, vc.sortOf(derefType(g.Type())))
	return comp
}

// havocAll replaces the whole heap by a fresh epoch (unknown call), keeping never-escaping locals.
func (vc *VC) havocAll(st *State) {
	nh := &Heap{known: map[string]Term{}, ep: vc.newEpoch()}
	for k, v := range st.heap.known {
		if strings.HasPrefix(k, "L:") || vc.isConstComp(k) {
			nh.known[k] = v
		}
	}
	st.heap = nh
	vc.writeAll = true
	// allocation counter may have grown
	nt := vc.declFresh("top", sortRef)
	vc.assume(st, mk(app("<=", st.top, nt), sortBool))
	st.top = nt
}

// const components (read-only globals) must read the same in every epoch: resolved through a global table.
func (vc *VC) isConstComp(comp string) bool { return strings.HasPrefix(comp, "GC:") }


// ---------------------------------------------------------------- place load / store

func (vc *VC) rootTerm(st *State, p *Place) Term {
	switch p.Kind {
	case BLocal, BGlobal:
		return vc.heapGet(st.heap, p.Comp)
	default:
		return tSelect(vc.heapGet(st.heap, p.Comp), p.Ref)
	}
}

func (vc *VC) setRoot(st *State, p *Place, v Term) {
	switch p.Kind {
	case BLocal, BGlobal:
		vc.heapSet(st, p.Comp, vc.define(p.Comp, v))
	default:
		h := vc.heapGet(st.heap, p.Comp)
		vc.pendingRef = p.Ref.S
		vc.heapSet(st, p.Comp, vc.define(p.Comp, tStore(h, p.Ref, v)))
		vc.pendingRef = ""
	}
}

func (vc *VC) loadPlace(st *State, p *Place) Term {
	t := vc.rootTerm(st, p)
	for _, e := range p.Path {
		t = vc.project(t, e)
	}
	return t
}

func (vc *VC) project(t Term, e PathElem) Term {
	if e.IsIndex {
		if isU256(e.Cont) {
			return vc.u256Limb(t, e.Index)
		}
		return tSelect(t, e.Index)
	}
	st := e.Cont.Underlying().(*types.Struct)
	si := vc.structInfoOf(e.Cont, st)
	if isBigInt(e.Cont) || isBigRat(e.Cont) || isBigFloat(e.Cont) {
		vc.errorf("field access into math/big value")
		return t
	}
	return mk("("+si.fields[e.Field]+" "+t.S+")", vc.sortOf(si.ftypes[e.Field]))
}

func (vc *VC) u256Limb(t Term, idx Term) Term {
	limb := func(i int) Term {
		return mk(fmt.Sprintf("((_ extract %d %d) %s)", 64*i+63, 64*i, t.S), sortBV(64))
	}
	if k, ok := litValue(idx); ok {
		return limb(int(k))
	}
	acc := limb(3)
	for i := 2; i >= 0; i-- {
		acc = tIte(tEq(idx, vc.idxLit(int64(i))), limb(i), acc)
	}
	return acc
}

func (vc *VC) update(t Term, path []PathElem, v Term) Term {
	if len(path) == 0 {
		return v
	}
	e := path[0]
	if e.IsIndex {
		if isU256(e.Cont) {
			// replace one limb
			k, ok := litValue(e.Index)
			if !ok {
				vc.errorf("store to uint256 limb with symbolic index")
				return t
			}
			parts := make([]string, 4)
			for i := 0; i < 4; i++ {
				if int64(i) == k {
					parts[i] = v.S
				} else {
					parts[i] = fmt.Sprintf("((_ extract %d %d) %s)", 64*i+63, 64*i, t.S)
				}
			}
			return mk(fmt.Sprintf("(concat %s %s %s %s)", parts[3], parts[2], parts[1], parts[0]), sortBV(256))
		}
		inner := vc.update(tSelect(t, e.Index), path[1:], v)
		return tStore(t, e.Index, inner)
	}
	st := e.Cont.Underlying().(*types.Struct)
	si := vc.structInfoOf(e.Cont, st)
	if len(t.S) > 64 {
		t = vc.define("su", t)
	}
	var as []Term
	for i := range si.fields {
		ft := mk("("+si.fields[i]+" "+t.S+")", vc.sortOf(si.ftypes[i]))
		if i == e.Field {
			as = append(as, vc.update(ft, path[1:], v))
		} else {
			as = append(as, ft)
		}
	}
	return mk(app(si.ctor, as...), t.T)
}

func (vc *VC) storePlace(st *State, p *Place, v Term) {
	if len(p.Path) == 0 {
		vc.setRoot(st, p, v)
		return
	}
	root := vc.rootTerm(st, p)
	if p.Kind == BPtr && !p.Path[0].IsIndex && p.Path[0].Cont != nil {
		if _, ok := p.Path[0].Cont.Underlying().(*types.Struct); ok && !isBigInt(p.Path[0].Cont) && !isBigRat(p.Path[0].Cont) && !isBigFloat(p.Path[0].Cont) {
			vc.pendingField, vc.pendingCont = p.Path[0].Field, p.Path[0].Cont
		}
	}
	vc.setRoot(st, p, vc.update(root, p.Path, v))
	vc.pendingCont = nil
}

// litValue recognises literal index terms produced by idxLit / bvLit / intLit.
func litValue(t Term) (int64, bool) {
	s := t.S
	var v int64
	var bits int
	if n, _ := fmt.Sscanf(s, "(_ bv%d %d)", &v, &bits); n == 2 {
		return v, true
	}
	if len(s) > 0 && s[0] >= '0' && s[0] <= '9' {
		if n, _ := fmt.Sscanf(s, "%d", &v); n == 1 && fmt.Sprint(v) == s {
			return v, true
		}
	}
	return 0, false
}

// valTerm converts a Val to a storable SMT term (pointers become refs).
func (vc *VC) valTerm(v Val, t types.Type) Term {
	if v.P != nil {
		return vc.refOf(v.P)
	}
	return v.T
}

func (vc *VC) refOf(p *Place) Term {
	if (p.Kind == BPtr || p.Kind == BArr) && len(p.Path) == 0 {
		return p.Ref
	}
	// A pointer to a field/element/local is being stored as a value. The model has no interior references:
	// the pointer becomes a fresh object holding a snapshot of the current contents (reads through it are
	// right as long as neither side is written afterwards). Reported as an abstraction.
	if vc.curState != nil && p.Typ != nil {
		st := vc.curState
		if arr, isArr := p.Typ.Underlying().(*types.Array); isArr && !isU256(p.Typ) {
			// pointer to an array-typed field: array objects live in A:<elem>; snapshot the current contents there
			vc.note("interior pointer stored as a value: snapshot semantics (" + typeKey(p.Typ) + ")")
			ref := st.top
			st.top = vc.define("top", mk(fmt.Sprintf("(+ %s 1)", ref.S), sortRef))
			comp := vc.arrComp(arr.Elem())
			val := vc.loadPlace(st, p)
			h := vc.heapGet(st.heap, comp)
			st.heap.known[comp] = vc.define(comp, tStore(h, ref, val))
			return ref
		}
		if _, isArr := p.Typ.Underlying().(*types.Array); !isArr || isU256(p.Typ) {
			vc.note("interior pointer stored as a value: snapshot semantics (" + typeKey(p.Typ) + ")")
			ref := st.top
			st.top = vc.define("top", mk(fmt.Sprintf("(+ %s 1)", ref.S), sortRef))
			comp := vc.ptrComp(p.Typ)
			val := vc.loadPlace(st, p)
			h := vc.heapGet(st.heap, comp)
			st.heap.known[comp] = vc.define(comp, tStore(h, ref, val))
			return ref
		}
	}
	vc.errorf("interior or local pointer escapes into a value (place %s)", p.Comp)
	return mk("0", sortRef)
}

// ptrVal builds the place for a pointer given as Ref term.
func (vc *VC) ptrVal(ref Term, ptrType types.Type) Val {
	elem := derefType(ptrType)
	if a, ok := elem.Underlying().(*types.Array); ok && !isU256(elem) {
		return Val{P: &Place{Kind: BArr, Comp: vc.arrComp(a.Elem()), Ref: ref, Root: a.Elem(), Typ: elem}}
	}
	return Val{P: &Place{Kind: BPtr, Comp: vc.ptrComp(elem), Ref: ref, Root: elem, Typ: elem}}
}

// mkVal wraps an SMT term of Go type t as Val (pointer types become places).
func (vc *VC) mkVal(t Term, typ types.Type) Val {
	if isPointer(typ) {
		return vc.ptrVal(t, typ)
	}
	return Val{T: t}
}

// freshVal makes an unconstrained value of a Go type, with well-formedness assumptions.
func (vc *VC) freshVal(st *State, base string, typ types.Type) Val {
	if tup, ok := typ.(*types.Tuple); ok {
		var vs []Val
		for i := 0; i < tup.Len(); i++ {
			vs = append(vs, vc.freshVal(st, fmt.Sprintf("%s.%d", base, i), tup.At(i).Type()))
		}
		return Val{Tup: vs}
	}
	s := vc.sortOf(typ)
	t := vc.declFresh(base, s)
	vc.assumeWF(st, t, typ)
	return vc.mkVal(t, typ)
}

// assumeWF adds the type invariants of a freshly introduced value.
func (vc *VC) assumeWF(st *State, t Term, typ types.Type) {
	switch u := typ.Underlying().(type) {
	case *types.Slice:
		vc.assume(st, mk(fmt.Sprintf("(wf-slice %s)", t.S), sortBool))
		vc.assume(st, mk(fmt.Sprintf("(< (sl-ref %s) %s)", t.S, st.top.S), sortBool))
	case *types.Pointer, *types.Map, *types.Chan:
		vc.assume(st, mk(fmt.Sprintf("(and (<= 0 %s) (< %s %s))", t.S, t.S, st.top.S), sortBool))
	case *types.Interface:
		vc.assume(st, mk(fmt.Sprintf("(and (<= 0 (iref %s)) (< (iref %s) %s) (<= 0 (ityp %s)) (=> (= (ityp %s) 0) (= (iref %s) 0)))", t.S, t.S, st.top.S, t.S, t.S, t.S), sortBool))
	case *types.Basic:
		if vc.mode == ModeMath {
			if bits, signed, ok := intInfo(typ); ok {
				lo, hi := intRange(bits, signed)
				vc.assume(st, mk(fmt.Sprintf("(and (<= %s %s) (<= %s %s))", lo.S, t.S, t.S, hi.S), sortBool))
			}
		}
		if isString(typ) {
			vc.assume(st, mk(fmt.Sprintf("(%s %s)", vc.idxGe0(), "(str-len "+t.S+")"), sortBool))
		}
	case *types.Array:
		if isU256(typ) && vc.mode == ModeMath {
			vc.assume(st, mk(fmt.Sprintf("(and (<= 0 %s) (< %s %s))", t.S, t.S, pow2(256)), sortBool))
		}
	case *types.Struct:
		if isBigInt(typ) || isBigRat(typ) || isBigFloat(typ) || isU256(typ) {
			return
		}
		si := vc.structInfoOf(typ, u)
		for i, f := range si.fields {
			ft := si.ftypes[i]
			switch ft.Underlying().(type) {
			case *types.Slice, *types.Pointer, *types.Map, *types.Interface, *types.Struct, *types.Chan:
				vc.assumeWF(st, mk("("+f+" "+t.S+")", vc.sortOf(ft)), ft)
			case *types.Basic:
				if vc.mode == ModeMath || isString(ft) {
					vc.assumeWF(st, mk("("+f+" "+t.S+")", vc.sortOf(ft)), ft)
				}
			}
		}
	}
}

func (vc *VC) idxGe0() string {
	if vc.mode == ModeBV {
		return "bvsle (_ bv0 64)"
	}
	return "<= 0"
}

func pow2(n uint) string { return new(bigInt).Lsh(newBig(1), n).String() }

func intRange(bits int, signed bool) (Term, Term) {
	one := newBig(1)
	if signed {
		hi := new(bigInt).Lsh(one, uint(bits-1))
		lo := new(bigInt).Neg(hi)
		hi.Sub(hi, one)
		return intLit(lo), intLit(hi)
	}
	hi := new(bigInt).Lsh(one, uint(bits))
	hi.Sub(hi, one)
	return intLit(newBig(0)), intLit(hi)
}

// ---------------------------------------------------------------- misc helpers

func sortedKeys(m map[string]int) []string {
	var ks []string
	for k := range m {
		ks = append(ks, k)
	}
	sort.Strings(ks)
	return ks
}

// loopWriteCheck: inside loops of a function with a modifies clause, every heap write must go to an object
// allocated by this call or to a declared modifies target (this is what lets the loop keep the frame).
func (vc *VC) loopWriteCheck(st *State, comp string, ref string, guard Term) {
	if !vc.frameOn || vc.loopNest == 0 || vc.dry > 0 || ref == "" || vc.modWhole[comp] {
		return
	}
	if !(strings.HasPrefix(comp, "A:") || strings.HasPrefix(comp, "P:") || strings.HasPrefix(comp, "M:")) {
		return
	}
	if ref == "*" {
		vc.oblige(st, vc.top, "frame.loopwrite", comp, tFalse, "write inside a loop to an unknown object of "+comp, 0)
		return
	}
	r := mk(ref, sortRef)
	alts := []Term{mk(app(">=", r, vc.topEntry), sortBool)}
	for _, m := range vc.modRefs[comp] {
		alts = append(alts, tEq(r, m))
	}
	goal := tImp(guard, tOr(alts...))
	if goal.S == "true" {
		return
	}
	key := "lw:" + comp + ":" + ref
	if st.checked(key) {
		return
	}
	st.mark(key)
	vc.oblige(st, vc.top, "frame.loopwrite", strings.ReplaceAll(comp, " ", ""), goal, "a write inside a loop goes to a fresh object or a modifies target", 0)
}

// ghostComp registers (on first use) the ghost heap component declared by "//@ ghost NAME SORT".
func (vc *VC) ghostComp(name string) (string, bool) {
	st, ok := vc.P.Ghosts[name]
	if !ok {
		return "", false
	}
	comp := "GH:" + name
	if _, done := vc.compSort[comp]; !done {
		if strings.Contains(st, "Bytes") {
			vc.needBytes = true
		}
		// {T} stands for the SMT sort of the Go type T in the integer mode of the function being verified
		for strings.Contains(st, "{") {
			i := strings.Index(st, "{")
			j := strings.Index(st[i:], "}")
			if j < 0 {
				break
			}
			tn := st[i+1 : i+j]
			srt, _ := vc.specTypeSort(tn, vc.P.GhostPkg[name])
			if srt == nil {
				vc.errorf("ghost %s: unknown type %s", name, tn)
				break
			}
			st = st[:i] + srt.Name + st[i+j+1:]
		}
		vc.compSort[comp] = parseSortText(st)
	}
	return comp, true
}

// bytesOf: the abstract content value of a byte slice (uninterpreted function of backing array, offset, length).
func (vc *VC) bytesOf(arr, off, ln Term) Term {
	vc.needBytes = true
	return mk(fmt.Sprintf("(bytes-of %s %s %s)", arr.S, off.S, ln.S), &Sort{K: SOpaque, Name: "Bytes"})
}

type globalInit struct {
	pkg  *types.Package
	name string
	typ  types.Type
	cv   *CV
}

// simplifyIte resolves (ite c a b) with a syntactically decidable condition of the forms produced by the
// big.Float models, so that literal precisions/modes stay literal.
func (vc *VC) simplifyIte(t Term) Term {
	s := t.S
	for i := 0; i < 8; i++ {
		if d, ok := vc.defs[s]; ok {
			s = d
			continue
		}
		if strings.HasPrefix(s, "(select ") {
			if r := vc.resolve(s); r != s {
				s = r
				continue
			}
		}
		if strings.HasPrefix(s, "(ite ") {
			parts := splitSexp(s[1 : len(s)-1])
			if len(parts) == 4 {
				c := parts[1]
				if d, ok := vc.defs[c]; ok {
					c = d
				}
				if strings.HasPrefix(c, "(= ") {
					cp := splitSexp(c[1 : len(c)-1])
					if len(cp) == 3 {
						a, b := vc.resolve(cp[1]), vc.resolve(cp[2])
						_, la := litValue(mk(a, nil))
						_, lb := litValue(mk(b, nil))
						if la && lb {
							if a == b {
								s = parts[2]
							} else {
								s = parts[3]
							}
							continue
						}
					}
				}
				if strings.HasPrefix(c, "(>= ") {
					cp := splitSexp(c[1 : len(c)-1])
					if len(cp) == 3 {
						av, la := litValue(mk(vc.resolve(cp[1]), nil))
						bv, lb := litValue(mk(vc.resolve(cp[2]), nil))
						if la && lb {
							if av >= bv {
								s = parts[2]
							} else {
								s = parts[3]
							}
							continue
						}
					}
				}
			}
		}
		break
	}
	return mk(vc.resolve(s), t.T)
}

func (vc *VC) resolve(s string) string {
	for i := 0; i < 8; i++ {
		d, ok := vc.defs[s]
		if !ok {
			break
		}
		s = d
	}
	// select over store chains of the aux components: (select (store h r v) r) => v
	for i := 0; i < 8 && strings.HasPrefix(s, "(select "); i++ {
		parts := splitSexp(s[1 : len(s)-1])
		if len(parts) != 3 {
			break
		}
		h := parts[1]
		if d, ok := vc.defs[h]; ok {
			h = d
		}
		if !strings.HasPrefix(h, "(store ") {
			break
		}
		sp := splitSexp(h[1 : len(h)-1])
		if len(sp) != 4 {
			break
		}
		if sp[2] == parts[2] {
			s = sp[3]
			for j := 0; j < 8; j++ {
				if d, ok := vc.defs[s]; ok {
					s = d
				} else {
					break
				}
			}
			continue
		}
		// different literal references cannot alias; neither can base+j and base+k for j != k
		_, l1 := litValue(mk(sp[2], nil))
		_, l2 := litValue(mk(parts[2], nil))
		b1, k1 := refBase(sp[2])
		b2, k2 := refBase(parts[2])
		glob := func(b string) bool { return strings.HasPrefix(b, "|GC:") }
		alloc := func(b string, k int) bool { return strings.HasPrefix(b, "|top") }
		if (l1 && l2) || (b1 == b2 && k1 != k2) || (glob(b1) && alloc(b2, k2)) || (glob(b2) && alloc(b1, k1)) {
			s = "(select " + sp[1] + " " + parts[2] + ")"
			continue
		}
		break
	}
	if strings.HasPrefix(s, "(ite ") && vc.resolveDepth < 6 {
		// the stored value may itself be a conditional over the aux maps (precision inherited on first use)
		vc.resolveDepth++
		r := vc.simplifyIte(mk(s, nil)).S
		vc.resolveDepth--
		return r
	}
	return s
}

// refBase splits an allocation reference (+ (+ base 1) 1) into (base, 2).
func refBase(t string) (string, int) {
	k := 0
	for strings.HasPrefix(t, "(+ ") && strings.HasSuffix(t, " 1)") {
		t = t[3 : len(t)-3]
		k++
	}
	return t, k
}

// decVal: the exact value of decimal numeral t as one Real constant per syntactic argument (a function
// application would pull the query out of pure arithmetic and slow every solver down; congruence between
// different terms for equal strings is not needed and not provided).
func (vc *VC) decVal(t Term, which string) Term {
	if vc.digitTheory {
		if which == "valid" {
			return mk("(dvalid "+t.S+")", sortBool)
		}
		return mk("(dv "+t.S+")", sortReal)
	}
	key := which + "!" + t.S
	if c, ok := vc.decConsts[key]; ok {
		return c
	}
	srt := sortReal
	if which == "valid" {
		srt = sortBool
	}
	n := smtIdent(fmt.Sprintf("dec%s!%d", which, len(vc.decConsts)))
	vc.constDecls = append(vc.constDecls, fmt.Sprintf("(declare-const %s %s)", n, srt.Name))
	c := mk(n, srt)
	vc.decConsts[key] = c
	return c
}

// needNeedsWriteDecl makes sure the needswrite predicate is declared in every query of this VC.
func (vc *VC) needNeedsWriteDecl() { vc.needNeedsWrite = true }

// assumeHeapClosure states the allocation invariant for array components holding references: every slice or
// pointer stored in an element was allocated earlier (its reference is below the allocation counter), so a
// later allocation cannot alias it.
func (vc *VC) assumeHeapClosure(st *State, comps []string) {
	for _, comp := range comps {
		if strings.HasPrefix(comp, "P:") {
			// pointed-to structs: their slice- and pointer-typed fields
			si := vc.structs[strings.TrimPrefix(comp, "P:")]
			if si == nil {
				continue
			}
			h := vc.heapGet(st.heap, comp)
			for i, f := range si.fields {
				fs := vc.sortOf(si.ftypes[i])
				var body string
				switch fs.K {
				case SSlice:
					body = fmt.Sprintf("(< (sl-ref (%s (select %s |q!r|))) %s)", f, h.S, st.top.S)
				case SRef:
					body = fmt.Sprintf("(< (%s (select %s |q!r|)) %s)", f, h.S, st.top.S)
				default:
					continue
				}
				q := fmt.Sprintf("(forall ((|q!r| Int)) (! %s :pattern ((%s (select %s |q!r|)))))", body, f, h.S)
				vc.assume(st, mk(q, sortBool))
			}
			continue
		}
		if !strings.HasPrefix(comp, "A:") {
			continue
		}
		srt := vc.compSort[comp]
		if srt == nil || srt.K != SArray || srt.Elem == nil || srt.Elem.K != SArray || srt.Elem.Elem == nil {
			continue
		}
		h := vc.heapGet(st.heap, comp)
		es := srt.Elem.Elem
		var body string
		switch es.K {
		case SSlice:
			body = fmt.Sprintf("(< (sl-ref (select (select %s |q!r|) |q!i|)) %s)", h.S, st.top.S)
		case SRef:
			body = fmt.Sprintf("(< (select (select %s |q!r|) |q!i|) %s)", h.S, st.top.S)
		default:
			continue
		}
		q := fmt.Sprintf("(forall ((|q!r| Int) (|q!i| %s)) (! %s :pattern ((select (select %s |q!r|) |q!i|))))", vc.idxSort().Name, body, h.S)
		vc.assume(st, mk(q, sortBool))
	}
}
