package main

import (
	"fmt"
	"sort"
)

func report(o *runOpts, P *Prog, results []*FuncResult, undecided []string, tLoad, tGen, wall float64) int {
	nObl, nOK, nFail := 0, 0, 0
	exit := 0
	for _, r := range results {
		for _, e := range r.Errors {
			undecided = append(undecided, r.Name+": "+e)
		}
		for _, ob := range r.Obls {
			nObl++
			if ob.Result == "unsat" {
				nOK++
				if o.verbose {
					fmt.Printf("  ok    %-60s %s %.2fs\n", ob.Name, ob.Solver, ob.TimeS)
				}
			} else {
				nFail++
				fmt.Printf("  FAIL  %-60s %s [%s] %s\n", ob.Name, ob.Result, ob.Solver, ob.Src)
			}
		}
		for _, ob := range r.Vacuity {
			if ob.Result != "sat" {
				fmt.Printf("  VACUOUS %-58s %s (%s)\n", ob.Name, ob.Result, ob.Src)
				undecided = append(undecided, "vacuity check failed: "+ob.Name)
			}
		}
		if o.verbose {
			var ks []string
			for k := range r.Havoc {
				ks = append(ks, k)
			}
			sort.Strings(ks)
			for _, k := range ks {
				fmt.Printf("  havoc %s: %s x%d\n", r.Name, k, r.Havoc[k])
			}
			for _, k := range sortedKeys(r.Notes) {
				fmt.Printf("  note  %s: %s x%d\n", r.Name, k, r.Notes[k])
			}
		}
	}
	for _, u := range undecided {
		fmt.Printf("UNDECIDED property=%s reason=%s\n", o.property, u)
	}
	fmt.Printf("property=%s functions=%d obligations=%d discharged=%d failed=%d load=%.1fs gen=%.1fs wall=%.1fs\n", o.property, len(results), nObl, nOK, nFail, tLoad, tGen, wall)
	if nFail > 0 {
		exit = 1
	} else if len(undecided) > 0 {
		exit = 2
	}
	return exit
}
