package main

import (
	"bufio"
	"encoding/json"
	"fmt"
	"os"
	"path/filepath"
	"sort"
	"strings"
)

type KnownFinding struct {
	Property   string `json:"property"`
	Obligation string `json:"obligation"`
	What       string `json:"what"`
	Witness    string `json:"witness,omitempty"`
	Class      string `json:"class,omitempty"` // spec expression over the function's parameters describing the known failing inputs
	Status     string `json:"status"`          // open | fixed
	Commit     string `json:"commit,omitempty"`
}

func loadKnown(path string) []KnownFinding {
	f, err := os.Open(path)
	if err != nil {
		return nil
	}
	defer f.Close()
	var out []KnownFinding
	sc := bufio.NewScanner(f)
	sc.Buffer(make([]byte, 1<<20), 1<<20)
	for sc.Scan() {
		l := strings.TrimSpace(sc.Text())
		if l == "" || strings.HasPrefix(l, "#") || strings.HasPrefix(l, "fixed:") {
			continue
		}
		var k KnownFinding
		if json.Unmarshal([]byte(l), &k) == nil {
			out = append(out, k)
		}
	}
	return out
}

type ReplayFile struct {
	Property   string      `json:"property"`
	Obligation string      `json:"obligation"`
	Function   string      `json:"function"`
	Clause     string      `json:"clause"`
	Position   string      `json:"position,omitempty"`
	Result     string      `json:"solver_result"`
	Solver     string      `json:"solver"`
	Output     string      `json:"solver_output"`
	Model      string      `json:"model,omitempty"`
	Inputs     interface{} `json:"inputs,omitempty"`
	TestSource string      `json:"test_source,omitempty"`
	TestOutput string      `json:"test_output,omitempty"`
	Verdict    string      `json:"verdict"` // reproduced | not-reproduced | no-model | replay-unavailable
	Script     string      `json:"smt_script_file,omitempty"`
}

type Evidence struct {
	PropertyID  string                 `json:"property_id"`
	Tier        string                 `json:"tier"`
	Seed        int64                  `json:"seed"`
	Level       string                 `json:"level"`
	Coverage    map[string]interface{} `json:"coverage"`
	Assumptions []string               `json:"assumptions"`
	WallS       float64                `json:"wall_s"`
	Violations  int                    `json:"violations"`
}

func report(o *runOpts, P *Prog, results []*FuncResult, undecided []string, tLoad, tGen, wall float64) int {
	known := loadKnown(o.known)
	nObl, nOK := 0, 0
	var failing []*Obligation
	failVC := map[*Obligation]*FuncResult{}
	solverCount := map[string]int{}
	solverTime := 0.0
	var slowest []*Obligation
	for _, r := range results {
		for _, e := range r.Errors {
			undecided = append(undecided, r.Name+": "+e)
		}
		for _, ob := range r.Obls {
			nObl++
			solverCount[ob.Solver]++
			solverTime += ob.TimeS
			slowest = append(slowest, ob)
			if ob.Result == "unsat" {
				nOK++
				if o.verbose {
					fmt.Printf("  ok    %-60s %s %.2fs\n", ob.Name, ob.Solver, ob.TimeS)
				}
			} else if ob.Result == "error" {
				undecided = append(undecided, r.Name+": every solver rejected the query of "+ob.Name+" (ill-formed VC: generator defect, no verdict)")
			} else {
				failing = append(failing, ob)
				failVC[ob] = r
			}
		}
		for _, ob := range r.Vacuity {
			switch ob.Result {
			case "sat":
			case "unsat":
				fmt.Printf("  VACUOUS %-58s %s (%s)\n", ob.Name, ob.Result, ob.Src)
				undecided = append(undecided, "vacuity guard failed (contradictory precondition, unreachable exit or unreachable antecedent): "+ob.Name)
			default:
				// quantified contexts: the solver cannot exhibit a model; recorded, not a failure
				r.VacuityUnknown++
				if o.verbose {
					fmt.Printf("  vacuity-unknown %-50s %s\n", ob.Name, ob.Result)
				}
			}
		}
		if o.verbose {
			for _, k := range sortedKeys(r.Havoc) {
				fmt.Printf("  havoc %s: %s x%d\n", r.Name, k, r.Havoc[k])
			}
			for _, k := range sortedKeys(r.Notes) {
				fmt.Printf("  note  %s: %s x%d\n", r.Name, k, r.Notes[k])
			}
		}
	}
	// known findings and violations
	violations := 0
	nKnown := 0
	var knownLines, violationLines []string
	for _, ob := range failing {
		r := failVC[ob]
		var kf *KnownFinding
		for i := range known {
			k := &known[i]
			if k.Status == "open" && k.Obligation == ob.Name && (k.Property == o.property || o.property == "") {
				kf = k
			}
		}
		if kf != nil {
			// is there a violation outside the known class?
			if kf.Class != "" && ob.Result == "sat" {
				if res := ob.vc.outsideClass(ob, kf.Class, o); res == "sat" {
					kf = nil // a different violation of the same obligation
				}
			}
		}
		if kf != nil {
			nKnown++
			knownLines = append(knownLines, fmt.Sprintf("KNOWN-FINDING: property=%s %s [%s]", o.property, kf.What, ob.Name))
			continue
		}
		violations++
		rp := makeReplay(o, P, r, ob)
		path := filepath.Join(o.replayDir, o.property, sanitizeFile(ob.Name)+".json")
		os.MkdirAll(filepath.Dir(path), 0o755)
		data, _ := json.MarshalIndent(rp, "", " ")
		os.WriteFile(path, data, 0o644)
		line := fmt.Sprintf("VIOLATION property=%s replay=%s obligation=%s clause=%q result=%s", o.property, path, ob.Name, ob.Src, ob.Result)
		if rp.Verdict != "reproduced" {
			line += " no-failing-input-found"
		}
		violationLines = append(violationLines, line)
	}
	for _, l := range knownLines {
		fmt.Println(l)
	}
	for _, l := range violationLines {
		fmt.Println(l)
	}
	for _, u := range undecided {
		fmt.Printf("UNDECIDED property=%s reason=%s\n", o.property, u)
	}
	fmt.Printf("property=%s tier=%s functions=%d obligations=%d discharged=%d known-findings=%d violations=%d undecided=%d load=%.1fs gen=%.1fs wall=%.1fs\n",
		o.property, o.tier, len(results), nObl, nOK, nKnown, violations, len(undecided), tLoad, tGen, wall)
	if o.evidence != "" {
		writeEvidence(o, P, results, undecided, nObl, nOK, nKnown, violations, solverCount, solverTime, slowest, wall, knownLines)
	}
	if violations > 0 {
		return 1
	}
	if len(undecided) > 0 {
		return 2
	}
	return 0
}

func writeEvidence(o *runOpts, P *Prog, results []*FuncResult, undecided []string, nObl, nOK, nKnown, violations int,
	solverCount map[string]int, solverTime float64, all []*Obligation, wall float64, knownLines []string) {
	cov := map[string]interface{}{}
	// claimed obligations exclude known findings (they are reported, not claimed)
	cov["obligations"] = nObl - nKnown
	cov["discharged"] = nOK
	cov["known_findings_reported"] = nKnown
	cov["checker_cmd"] = fmt.Sprintf("/verif/bin/govc verify -repo %s -property %s -tier %s  (z3 4.8.12 | z3-new 5.1.0 | cvc5 1.0 portfolio, %ds per obligation)", o.repo, o.property, o.tier, o.timeout)
	var fnames []string
	var trustedSet = map[string]bool{}
	havoc := map[string]int{}
	notes := map[string]int{}
	eff := map[string]int{}
	inl := map[string]int{}
	lib := map[string]int{}
	modes := map[string]string{}
	usedCons := map[string]bool{}
	nvac := 0
	for _, r := range results {
		fnames = append(fnames, r.Name)
		modes[r.Name] = r.Mode.String()
		for _, t := range r.Trusted {
			trustedSet[t] = true
		}
		for k, v := range r.Havoc {
			havoc[k] += v
		}
		for k, v := range r.Notes {
			notes[k] += v
		}
		for k, v := range r.EffFree {
			eff[k] += v
		}
		for k, v := range r.Inlined {
			inl[k] += v
		}
		if r.VC != nil {
			for k, v := range r.VC.libUsed {
				lib[k] += v
			}
		}
		for _, c := range r.UsedCons {
			usedCons[c] = true
		}
		for _, v := range r.Vacuity {
			if v.Result == "sat" {
				nvac++
			}
		}
	}
	sort.Strings(fnames)
	cov["functions_under_contract"] = fnames
	cov["int_mode"] = modes
	cov["vacuity_guards_passed"] = nvac
	nvu := 0
	for _, r := range results {
		nvu += r.VacuityUnknown
	}
	cov["vacuity_guards_undecided_by_solver"] = nvu
	nslow := 0
	for _, r := range results {
		nslow += r.SkippedSlow
	}
	cov["obligations_only_in_thorough_tier_skipped"] = nslow
	tb := []string{
		"govc VC generator (SSA -> SMT-LIB translation, /verif/govc) and go/ssa, go/types",
		"SMT solvers z3 4.8.12, z3 5.1.0, cvc5 1.0",
		"sequential semantics (goroutines, locks, sync.Map treated sequentially)",
	}
	for _, k := range sortedKeys(lib) {
		tb = append(tb, "library model (trusted contract): "+k)
	}
	var ts []string
	for k := range trustedSet {
		ts = append(ts, k)
	}
	sort.Strings(ts)
	for _, k := range ts {
		tb = append(tb, "trusted contract (body not verified): "+k)
	}
	for _, r := range results {
		if r.Contract != nil && r.Contract.opt("padlemma") {
			tb = append(tb, "assumed byte-string lemmas in "+r.Name+" (option padlemma; facts about big-endian strings injected at byte copies, not proved by the solver): a window disjoint from the copied range is unchanged; a window of zero bytes followed by the copied bytes has the value of the source; a store outside a window does not change it")
		}
	}
	cov["trusted_base"] = tb
	cov["havoc_calls"] = havoc
	cov["effect_free_calls_assumed"] = eff
	cov["inlined_callees"] = inl
	cov["abstracted_constructs"] = notes
	var cs []string
	for k := range usedCons {
		cs = append(cs, k)
	}
	sort.Strings(cs)
	cov["callee_contracts_used"] = cs
	cov["solver_wins"] = solverCount
	cov["solver_time_s"] = solverTime
	cov["undecided"] = undecided
	cov["known_findings"] = knownLines
	sort.Slice(all, func(i, j int) bool { return all[i].TimeS > all[j].TimeS })
	var slow []map[string]interface{}
	for i := 0; i < len(all) && i < 5; i++ {
		slow = append(slow, map[string]interface{}{"obligation": all[i].Name, "solver": all[i].Solver, "time_s": all[i].TimeS})
	}
	cov["slowest"] = slow
	var samples []map[string]interface{}
	for _, r := range results {
		for _, ob := range r.Obls {
			if len(samples) >= 8 {
				break
			}
			if ob.Trivial || ob.Kind == "safe.index" && len(samples) > 2 {
				continue
			}
			s := ob.Script
			tail := s
			if len(tail) > 700 {
				tail = "..." + tail[len(tail)-700:]
			}
			samples = append(samples, map[string]interface{}{"obligation": ob.Name, "clause": ob.Src, "result": ob.Result, "solver": ob.Solver, "time_s": ob.TimeS, "smt_bytes": len(s), "smt_tail": tail})
		}
	}
	cov["samples"] = samples
	cov["explanation"] = "each obligation is a weakest-precondition style verification condition generated from the SSA of the function in the current /repo tree and the contracts in src/<pkg>/zz_verif_contracts.go; 'discharged' counts obligations for which a solver returned unsat for the negated VC"
	ev := Evidence{PropertyID: o.property, Tier: o.tier, Seed: o.seed, Level: "proof", Coverage: cov, WallS: wall, Violations: violations}
	ev.Assumptions = append(ev.Assumptions, tb...)
	ev.Assumptions = append(ev.Assumptions, "machine integers are 64-bit vectors in bv mode; in math mode they are mathematical integers with explicit range/overflow obligations unless the contract says 'option mathints'")
	for _, k := range sortedKeys(havoc) {
		ev.Assumptions = append(ev.Assumptions, "call abstracted by havoc (sound, weak): "+k)
	}
	for _, k := range sortedKeys(eff) {
		ev.Assumptions = append(ev.Assumptions, "call assumed effect-free: "+k)
	}
	os.MkdirAll(filepath.Dir(o.evidence), 0o755)
	data, _ := json.MarshalIndent(ev, "", " ")
	os.WriteFile(o.evidence, data, 0o644)
}
