package main

import (
	"fmt"
	"go/token"
	"go/types"
	"math/big"
	"regexp"
	"sort"
	"strings"

	"golang.org/x/tools/go/ssa"
)

type bigInt = big.Int

func newBig(v int64) *big.Int { return big.NewInt(v) }

const maxInlineDepth = 4

// ---------------------------------------------------------------- CFG preparation

func (vc *VC) newFrame(fn *ssa.Function, parent *Frame) *Frame {
	vc.frameN++
	fr := &Frame{fn: fn, contract: vc.P.contractOf(fn), vals: map[ssa.Value]Val{}, id: vc.frameN, parent: parent,
		edges: map[[2]int]*edgeInfo{}, loops: map[*ssa.BasicBlock]*loopInfo{}, entryOf: map[*ssa.BasicBlock]*State{},
		exitOf: map[*ssa.BasicBlock]*State{}, debug: map[*ssa.BasicBlock][]debugRef{}}
	if parent != nil {
		fr.depth = parent.depth + 1
	}
	vc.prepareCFG(fr)
	return fr
}

func (vc *VC) prepareCFG(fr *Frame) {
	fn := fr.fn
	if len(fn.Blocks) == 0 {
		return
	}
	// reverse post-order ignoring back edges
	visited := map[*ssa.BasicBlock]bool{}
	var post []*ssa.BasicBlock
	var dfs func(b *ssa.BasicBlock)
	dfs = func(b *ssa.BasicBlock) {
		visited[b] = true
		for _, s := range b.Succs {
			if !visited[s] {
				dfs(s)
			}
		}
		post = append(post, b)
	}
	dfs(fn.Blocks[0])
	for i := len(post) - 1; i >= 0; i-- {
		fr.order = append(fr.order, post[i])
	}
	// loops: back edge b->h where h dominates b
	for _, b := range fr.order {
		for _, s := range b.Succs {
			if s.Dominates(b) {
				li := fr.loops[s]
				if li == nil {
					li = &loopInfo{header: s, blocks: map[*ssa.BasicBlock]bool{s: true}}
					fr.loops[s] = li
				}
				li.backs = append(li.backs, b)
				// natural loop body
				var stack []*ssa.BasicBlock
				if !li.blocks[b] {
					li.blocks[b] = true
					stack = append(stack, b)
				}
				for len(stack) > 0 {
					x := stack[len(stack)-1]
					stack = stack[:len(stack)-1]
					for _, p := range x.Preds {
						if !li.blocks[p] && visited[p] {
							li.blocks[p] = true
							stack = append(stack, p)
						}
					}
				}
			}
		}
	}
	// check reducibility: every retreating edge must be a back edge (target dominates source)
	pos := map[*ssa.BasicBlock]int{}
	for i, b := range fr.order {
		pos[b] = i
	}
	for _, b := range fr.order {
		for _, s := range b.Succs {
			if pos[s] <= pos[b] && !s.Dominates(b) {
				vc.errorf("%s: irreducible control flow", fn.Name())
			}
		}
	}
	// loop ordinals by source position of the header (falls back to block index)
	var hs []*ssa.BasicBlock
	for h := range fr.loops {
		hs = append(hs, h)
	}
	sort.Slice(hs, func(i, j int) bool {
		pi, pj := blockPos(hs[i]), blockPos(hs[j])
		if pi != pj {
			return pi < pj
		}
		return hs[i].Index < hs[j].Index
	})
	for i, h := range hs {
		fr.loops[h].ordinal = i
	}
	// debug refs
	for _, b := range fn.Blocks {
		for i, ins := range b.Instrs {
			if d, ok := ins.(*ssa.DebugRef); ok {
				if o := d.Object(); o != nil {
					fr.debug[b] = append(fr.debug[b], debugRef{i, o, d.X, d.IsAddr})
				}
			}
		}
	}
}

func blockPos(b *ssa.BasicBlock) token.Pos {
	// position of the loop = smallest valid position among its instructions
	var best token.Pos
	for _, ins := range b.Instrs {
		if p := ins.Pos(); p.IsValid() && (best == 0 || p < best) {
			best = p
		}
		if d, ok := ins.(*ssa.DebugRef); ok {
			if p := d.Expr.Pos(); p.IsValid() && (best == 0 || p < best) {
				best = p
			}
		}
	}
	return best
}

// ---------------------------------------------------------------- running a function body

// runBody symbolically executes fn from state st with the given argument values.
// It returns the merged exit state and results; obligations are recorded on the way.
func (vc *VC) runBody(fr *Frame, st *State) (*State, []Val) {
	fn := fr.fn
	if len(fn.Blocks) == 0 {
		vc.errorf("%s: no body", fn.Name())
		return st, nil
	}
	fr.entrySt = st.clone()
	for i, p := range fn.Params {
		fr.vals[p] = fr.args[i]
	}
	for _, b := range fr.order {
		if li := fr.loops[b]; li != nil {
			vc.enterLoop(fr, li)
		} else {
			est := vc.mergePreds(fr, b, nil)
			if est == nil {
				continue
			}
			fr.entryOf[b] = est
		}
		if fr.entryOf[b] == nil {
			continue
		}
		vc.runBlock(fr, b)
	}
	return vc.mergeExits(fr)
}

// mergePreds builds the entry state of block b from the recorded out-edges of its predecessors.
// only: restrict to these predecessors (nil = all forward predecessors).
func (vc *VC) mergePreds(fr *Frame, b *ssa.BasicBlock, only map[*ssa.BasicBlock]bool) *State {
	if b == fr.fn.Blocks[0] && len(b.Preds) == 0 {
		return fr.entrySt.clone()
	}
	type inc struct {
		pred *ssa.BasicBlock
		idx  int
		e    *edgeInfo
	}
	var incs []inc
	for i, p := range b.Preds {
		if only != nil && !only[p] {
			continue
		}
		e := fr.edges[[2]int{p.Index, b.Index}]
		if e == nil {
			continue
		}
		// multiple edges p->b (switch) are keyed the same; handled by OR-ing at creation
		dup := false
		for _, x := range incs {
			if x.pred == p {
				dup = true
			}
		}
		if dup {
			continue
		}
		incs = append(incs, inc{p, i, e})
	}
	if len(incs) == 0 {
		if b == fr.fn.Blocks[0] {
			return fr.entrySt.clone()
		}
		return nil
	}
	var conds []Term
	for _, x := range incs {
		conds = append(conds, x.e.cond)
	}
	reach := vc.define(fmt.Sprintf("R!f%db%d", fr.id, b.Index), tOr(conds...))
	st := &State{reach: reach}
	// heap merge
	if len(incs) == 1 {
		c := incs[0].e.st.clone()
		st.heap, st.top = c.heap, c.top
	} else {
		st.heap = vc.mergeHeaps(fr, b, conds, func(i int) *Heap { return incs[i].e.st.heap }, len(incs))
		top := incs[len(incs)-1].e.st.top
		for i := len(incs) - 2; i >= 0; i-- {
			top = tIte(conds[i], incs[i].e.st.top, top)
		}
		st.top = vc.define("top!m", top)
	}
	// phis
	vc.curState = st
	for _, ins := range b.Instrs {
		phi, ok := ins.(*ssa.Phi)
		if !ok {
			break
		}
		var vs []Val
		for _, x := range incs {
			vs = append(vs, vc.operand(fr, x.e.st, phi.Edges[x.idx]))
		}
		fr.vals[phi] = vc.iteVals(fmt.Sprintf("phi!%s", phi.Name()), conds, vs, phi.Type())
	}
	return st
}

func (vc *VC) mergeHeaps(fr *Frame, b *ssa.BasicBlock, conds []Term, get func(i int) *Heap, n int) *Heap {
	sameEp := true
	for i := 1; i < n; i++ {
		if get(i).ep != get(0).ep {
			sameEp = false
		}
	}
	nh := &Heap{known: map[string]Term{}}
	keys := map[string]bool{}
	if sameEp {
		nh.ep = get(0).ep
		for i := 0; i < n; i++ {
			for k := range get(i).known {
				keys[k] = true
			}
		}
	} else {
		nh.ep = vc.newEpoch()
		for k := range vc.compSort {
			if !strings.HasPrefix(k, "L:") {
				keys[k] = true
			}
		}
		for i := 0; i < n; i++ {
			for k := range get(i).known {
				keys[k] = true
			}
		}
	}
	var ks []string
	for k := range keys {
		ks = append(ks, k)
	}
	sort.Strings(ks)
	for _, k := range ks {
		if strings.HasPrefix(k, "L:") {
			// locals unknown on some path (not yet allocated there) are irrelevant: take any known value
			var ts []Term
			var cs []Term
			for i := 0; i < n; i++ {
				if t, ok := get(i).known[k]; ok {
					ts = append(ts, t)
					cs = append(cs, conds[i])
				}
			}
			acc := ts[len(ts)-1]
			for i := len(ts) - 2; i >= 0; i-- {
				acc = tIte(cs[i], ts[i], acc)
			}
			nh.known[k] = vc.define(k+"!m", acc)
			continue
		}
		var ts []Term
		same := true
		for i := 0; i < n; i++ {
			t := vc.heapGet(get(i), k)
			ts = append(ts, t)
			if t.S != ts[0].S {
				same = false
			}
		}
		if same {
			nh.known[k] = ts[0]
			continue
		}
		acc := ts[n-1]
		for i := n - 2; i >= 0; i-- {
			acc = tIte(conds[i], ts[i], acc)
		}
		nh.known[k] = vc.define(k+"!m", acc)
	}
	return nh
}

// iteVals merges values arriving over several edges.
func (vc *VC) iteVals(base string, conds []Term, vs []Val, typ types.Type) Val {
	if len(vs) == 1 {
		return vs[0]
	}
	if tup, ok := typ.(*types.Tuple); ok {
		var out []Val
		for i := 0; i < tup.Len(); i++ {
			var col []Val
			for _, v := range vs {
				col = append(col, v.Tup[i])
			}
			out = append(out, vc.iteVals(fmt.Sprintf("%s.%d", base, i), conds, col, tup.At(i).Type()))
		}
		return Val{Tup: out}
	}
	if vs[0].P != nil {
		// pointers: all must be the same place, or all plain refs
		same := true
		for _, v := range vs[1:] {
			if !samePlace(v.P, vs[0].P) {
				same = false
			}
		}
		if same {
			return vs[0]
		}
		// places of the same shape (same component, same path structure): merge refs and indices
		shape := true
		p0 := vs[0].P
		for _, v := range vs {
			if v.P == nil || v.P.Kind != p0.Kind || v.P.Comp != p0.Comp || len(v.P.Path) != len(p0.Path) || (p0.Kind != BPtr && p0.Kind != BArr && v.P.Comp != p0.Comp) {
				shape = false
				break
			}
			for j := range p0.Path {
				if v.P.Path[j].IsIndex != p0.Path[j].IsIndex || v.P.Path[j].Field != p0.Path[j].Field {
					shape = false
				}
			}
		}
		if !shape {
			// mixed nil / object / interior pointers: fall back to references (interior pointers become
			// snapshots, see refOf)
			if vc.curState != nil {
				errs := len(vc.errs)
				var rs []Term
				for _, v := range vs {
					rs = append(rs, vc.refOf(v.P))
				}
				if len(vc.errs) == errs {
					acc := rs[len(rs)-1]
					for i := len(rs) - 2; i >= 0; i-- {
						acc = tIte(conds[i], rs[i], acc)
					}
					return vc.ptrVal(vc.define(base, acc), typ)
				}
			}
			vc.errorf("phi/merge of pointers to different kinds of places (%s)", base)
			return vs[0]
		}
		np := *p0
		np.Path = append([]PathElem{}, p0.Path...)
		if p0.Kind == BPtr || p0.Kind == BArr {
			acc := vs[len(vs)-1].P.Ref
			for i := len(vs) - 2; i >= 0; i-- {
				acc = tIte(conds[i], vs[i].P.Ref, acc)
			}
			np.Ref = vc.define(base, acc)
		}
		for j := range np.Path {
			if !np.Path[j].IsIndex {
				continue
			}
			acc := vs[len(vs)-1].P.Path[j].Index
			for i := len(vs) - 2; i >= 0; i-- {
				acc = tIte(conds[i], vs[i].P.Path[j].Index, acc)
			}
			np.Path[j].Index = vc.define(base+"!i", acc)
		}
		return Val{P: &np}
	}
	acc := vs[len(vs)-1].T
	for i := len(vs) - 2; i >= 0; i-- {
		acc = tIte(conds[i], vs[i].T, acc)
	}
	return Val{T: vc.define(base, acc)}
}

func samePlace(a, b *Place) bool {
	if a == nil || b == nil {
		return a == b
	}
	if a.Kind != b.Kind || a.Comp != b.Comp || a.Ref.S != b.Ref.S || len(a.Path) != len(b.Path) {
		return false
	}
	for i := range a.Path {
		if a.Path[i].IsIndex != b.Path[i].IsIndex || a.Path[i].Field != b.Path[i].Field || a.Path[i].Index.S != b.Path[i].Index.S {
			return false
		}
	}
	return true
}

// addEdge records the out-edge from->to with condition cond (conjoined with reach) and state.
func (vc *VC) addEdge(fr *Frame, from, to *ssa.BasicBlock, cond Term, st *State) {
	c := vc.define(fmt.Sprintf("E!f%db%d_%d", fr.id, from.Index, to.Index), tAnd(st.reach, cond))
	k := [2]int{from.Index, to.Index}
	if e := fr.edges[k]; e != nil && e.st == st {
		e.cond = tOr(e.cond, c)
		return
	}
	fr.edges[k] = &edgeInfo{cond: c, st: st}
}

func (vc *VC) runBlock(fr *Frame, b *ssa.BasicBlock) {
	st := fr.entryOf[b]
	prevNest := vc.loopNest
	for _, li := range fr.loops {
		if li.blocks[b] {
			vc.loopNest++
			break
		}
	}
	defer func() { vc.loopNest = prevNest }()
	// clear stale out-edges (dry runs)
	for _, s := range b.Succs {
		delete(fr.edges, [2]int{b.Index, s.Index})
	}
	for _, ins := range b.Instrs {
		if _, ok := ins.(*ssa.Phi); ok {
			continue
		}
		vc.instr(fr, st, ins)
		if len(vc.errs) > 20 {
			break
		}
	}
	fr.exitOf[b] = st
	// back edges: check invariants of the loops whose header is a successor
	for _, s := range b.Succs {
		if li := fr.loops[s]; li != nil && li.blocks[b] && s.Dominates(b) {
			vc.checkBackEdge(fr, li, b)
		}
	}
}

func (vc *VC) mergeExits(fr *Frame) (*State, []Val) {
	if len(fr.exits) == 0 {
		// function never returns normally (panics or loops forever)
		dead := fr.entrySt.clone()
		dead.reach = tFalse
		var rs []Val
		res := fr.fn.Signature.Results()
		for i := 0; i < res.Len(); i++ {
			rs = append(rs, vc.freshVal(dead, "deadres", res.At(i).Type()))
		}
		return dead, rs
	}
	if len(fr.exits) == 1 {
		return fr.exits[0].st, fr.exits[0].results
	}
	var conds []Term
	for _, e := range fr.exits {
		conds = append(conds, e.st.reach)
	}
	st := &State{reach: vc.define(fmt.Sprintf("R!f%dexit", fr.id), tOr(conds...))}
	st.heap = vc.mergeHeaps(fr, nil, conds, func(i int) *Heap { return fr.exits[i].st.heap }, len(fr.exits))
	top := fr.exits[len(fr.exits)-1].st.top
	for i := len(fr.exits) - 2; i >= 0; i-- {
		top = tIte(conds[i], fr.exits[i].st.top, top)
	}
	st.top = vc.define("top!x", top)
	res := fr.fn.Signature.Results()
	var rs []Val
	for i := 0; i < res.Len(); i++ {
		var col []Val
		for _, e := range fr.exits {
			col = append(col, e.results[i])
		}
		rs = append(rs, vc.iteVals(fmt.Sprintf("ret!f%d.%d", fr.id, i), conds, col, res.At(i).Type()))
	}
	return st, rs
}

// ---------------------------------------------------------------- loops

func (vc *VC) enterLoop(fr *Frame, li *loopInfo) {
	h := li.header
	entryPreds := map[*ssa.BasicBlock]bool{}
	for _, p := range h.Preds {
		if !li.blocks[p] {
			entryPreds[p] = true
		}
	}
	est := vc.mergePreds(fr, h, entryPreds)
	if est == nil {
		return
	}
	var spec *LoopSpec
	if fr.contract != nil {
		spec = fr.contract.Loops[li.ordinal]
	}
	if spec == nil && fr.contract != nil && fr.contract.opt("maporder") && fr.depth == 0 && isMapRangeHeader(h) {
		// "option maporder": a loop ranging over a map that carries no specification is checked for order
		// independence on everything it writes, with the trivial invariant
		spec = &LoopSpec{Commutes: true}
	}
	if spec == nil {
		vc.errorf("%s: loop %d has no invariant (every loop of a function under contract needs one; use 'loop %d: invariant true' for none)", funcKey(fr.fn), li.ordinal, li.ordinal)
		spec = &LoopSpec{}
	}
	// implicit invariant of "for i := range x" loops: the hidden index starts at -1 and only grows
	for _, ins := range h.Instrs {
		phi, ok := ins.(*ssa.Phi)
		if !ok {
			break
		}
		if phi.Comment == "rangeindex" {
			dup := false
			for _, c := range spec.Invariants {
				if c.Label == "rangeindex" {
					dup = true
				}
			}
			if !dup {
				spec = &LoopSpec{Invariants: append([]*Clause{{Label: "rangeindex", Src: "(implicit) range index >= -1", Implicit: phi}}, spec.Invariants...), Decreases: spec.Decreases}
				if fr.contract != nil {
					fr.contract.Loops[li.ordinal] = spec
				}
			}
		}
	}
	// 1. invariant holds on entry (phis already bound to entry-edge values by mergePreds)
	fr.entryOf[h] = est
	for i, inv := range spec.Invariants {
		t := vc.evalClause(fr, est, inv, h, nil)
		vc.oblige(est, fr, "inv.entry", loopTag(li, inv, i), t, inv.Src, h.Instrs[0].Pos())
	}
	for i, c := range spec.AtEntry {
		t := vc.evalClause(fr, est, c, h, nil)
		vc.obligeNoAssume(est, fr, "atentry", loopTag(li, c, i), t, c.Src)
	}
	// 2. find what the loop modifies (dry run from a fully havocked state)
	written, all := vc.loopWrites(fr, li, est)
	// 3. havoc
	hst := est.clone()
	if all {
		vc.havocAll(hst)
	} else {
		var ks []string
		for k := range written {
			ks = append(ks, k)
		}
		sort.Strings(ks)
		for _, k := range ks {
			if _, known := vc.compSort[k]; !known {
				continue
			}
			vc.written[k] = true
			// per-reference havoc when every write of the loop goes to references that exist before the loop
			if refs := li.writeRefs[k]; len(refs) > 0 && vc.compSort[k].K == SArray && (strings.HasPrefix(k, "A:") || strings.HasPrefix(k, "P:") || strings.HasPrefix(k, "M:")) {
				stable := true
				var rl []string
				for r := range refs {
					if r == "*" || !stableTerm(r, li.preText) {
						stable = false
					}
					rl = append(rl, r)
				}
				if stable {
					sort.Strings(rl)
					cur := vc.heapGet(hst.heap, k)
					for _, r := range rl {
						// a struct object of which the loop only writes some fields keeps the others
						if obj, ok := vc.fieldHavoc(k, tSelect(cur, mk(r, sortRef)), li.writeFields[k][r]); ok {
							cur = tStore(cur, mk(r, sortRef), obj)
							continue
						}
						cur = tStore(cur, mk(r, sortRef), vc.declFresh(k+"!loopobj", vc.compSort[k].Elem))
					}
					hst.heap.known[k] = vc.define(k+"!loop", cur)
					continue
				}
			}
			nf := vc.declFresh(k+"!loop", vc.compSort[k])
			if vc.frameOn && !vc.modWhole[k] && vc.compSort[k].K == SArray && (strings.HasPrefix(k, "A:") || strings.HasPrefix(k, "P:") || strings.HasPrefix(k, "M:")) {
				// objects that existed at function entry and are not modifies targets are untouched by the loop
				// (every write inside the loop is checked against this: frame.loopwrite)
				pre := vc.heapGet(hst.heap, k)
				conds := []Term{mk(fmt.Sprintf("(and (<= 0 |q!r|) (< |q!r| %s))", vc.topEntry.S), sortBool)}
				for _, m := range vc.modRefs[k] {
					conds = append(conds, tNot(tEq(mk("|q!r|", sortRef), m)))
				}
				q := fmt.Sprintf("(forall ((|q!r| Int)) (! (=> %s (= (select %s |q!r|) (select %s |q!r|))) :pattern ((select %s |q!r|))))", tAnd(conds...).S, nf.S, pre.S, nf.S)
				vc.assume(hst, mk(q, sortBool))
			}
			hst.heap.known[k] = nf
		}
		if len(ks) > 0 {
			nt := vc.declFresh("top", sortRef)
			vc.assume(hst, mk(app("<=", hst.top, nt), sortBool))
			hst.top = nt
		}
	}
	for _, ins := range h.Instrs {
		phi, ok := ins.(*ssa.Phi)
		if !ok {
			break
		}
		fr.vals[phi] = vc.freshVal(hst, fmt.Sprintf("%s!loop", phiName(phi)), phi.Type())
	}
	fr.entryOf[h] = hst
	{
		var cs []string
		for k := range vc.compSort {
			cs = append(cs, k)
		}
		sort.Strings(cs)
		vc.assumeHeapClosure(hst, cs)
	}
	isRange := false
	for _, ins := range h.Instrs {
		if phi, ok := ins.(*ssa.Phi); ok && phi.Comment == "rangeindex" {
			isRange = true
		}
	}
	for _, inv := range spec.Invariants {
		t := vc.evalClause(fr, hst, inv, h, nil)
		vc.assume(hst, t)
		// range loops read element rangeidx()+1 next: give the solver that instance of every single-binder
		// quantified invariant (index terms are named constants, which defeats pattern matching)
		if isRange && inv.Expr != nil {
			for _, g := range groundInstances(inv.Expr) {
				gi := &Clause{Consts: inv.Consts, Label: inv.Label, Src: inv.Src, Expr: g, File: inv.File, Line: inv.Line}
				func() {
					n := len(vc.errs)
					gt := vc.evalClause(fr, hst, gi, h, nil)
					if len(vc.errs) == n {
						vc.assume(hst, gt)
					} else {
						vc.errs = vc.errs[:n]
					}
				}()
			}
		}
	}
	if spec.Decreases != nil {
		// remember the measure at the header
		li.measure = vc.evalClauseVal(fr, hst, spec.Decreases, h, nil)
	}
	if spec.Commutes && vc.dry == 0 && !vc.inCommute {
		vc.commuteCheck(fr, li, hst, spec, written, all)
	}
}

func isMapRangeHeader(h *ssa.BasicBlock) bool {
	for _, ins := range h.Instrs {
		if n, ok := ins.(*ssa.Next); ok && !n.IsString {
			return true
		}
	}
	return false
}

func phiName(phi *ssa.Phi) string {
	if phi.Comment != "" {
		return phi.Comment
	}
	return phi.Name()
}

func loopTag(li *loopInfo, c *Clause, i int) string {
	if c.Label != "" {
		return fmt.Sprintf("loop%d.%s", li.ordinal, c.Label)
	}
	return fmt.Sprintf("loop%d.%d", li.ordinal, i)
}

// loopWrites executes the loop body once from an arbitrary state, discarding everything but the set of
// written heap components.
func (vc *VC) loopWrites(fr *Frame, li *loopInfo, est *State) (map[string]bool, bool) {
	// snapshot
	outLen, oblLen := len(vc.out), len(vc.obls)
	errLen := len(vc.errs)
	savedWritten, savedAll := vc.written, vc.writeAll
	savedRefs, savedFields := vc.writtenRefs, vc.writtenFields
	vc.writtenRefs = map[string]map[string]bool{}
	vc.writtenFields = map[string]map[string]map[int]bool{}
	savedCnt := map[string]int{}
	for k, v := range vc.oblCnt {
		savedCnt[k] = v
	}
	savedExits := len(fr.exits)
	savedEdges := map[[2]int]*edgeInfo{}
	for k, v := range fr.edges {
		savedEdges[k] = v
	}
	savedNotes := map[string]int{}
	for k, v := range vc.notes {
		savedNotes[k] = v
	}
	savedHavoc := map[string]int{}
	for k, v := range vc.havocCalls {
		savedHavoc[k] = v
	}
	vc.written, vc.writeAll = map[string]bool{}, false
	vc.dry++

	hst := est.clone()
	vc.havocAll(hst)
	vc.writeAll = false
	for _, ins := range li.header.Instrs {
		phi, ok := ins.(*ssa.Phi)
		if !ok {
			break
		}
		fr.vals[phi] = vc.freshVal(hst, "dry!"+phiName(phi), phi.Type())
	}
	fr.entryOf[li.header] = hst
	for _, b := range fr.order {
		if !li.blocks[b] {
			continue
		}
		if b != li.header {
			if inner := fr.loops[b]; inner != nil {
				vc.enterLoop(fr, inner)
			} else {
				s := vc.mergePreds(fr, b, nil)
				fr.entryOf[b] = s
			}
			if fr.entryOf[b] == nil {
				continue
			}
		}
		vc.runBlock(fr, b)
	}
	written, all := vc.written, vc.writeAll
	li.writeRefs, li.writeFields = vc.writtenRefs, vc.writtenFields
	// restore
	vc.writtenRefs, vc.writtenFields = savedRefs, savedFields
	for comp, rs := range li.writeRefs {
		for r := range rs {
			vc.noteWriteRef(comp, r)
			for f := range li.writeFields[comp][r] {
				vc.noteWriteField(comp, r, f)
			}
		}
	}
	preText := strings.Join(vc.out[:outLen], "\n") + strings.Join(vc.constDecls, "\n")
	li.preText = preText
	vc.dry--
	vc.out = vc.out[:outLen]
	vc.obls = vc.obls[:oblLen]
	if len(vc.errs) > errLen {
		// keep errors (they will recur in the real pass); dedupe later
		vc.errs = vc.errs[:errLen]
	}
	vc.oblCnt = savedCnt
	vc.notes = savedNotes
	vc.havocCalls = savedHavoc
	fr.exits = fr.exits[:savedExits]
	fr.edges = savedEdges
	for k := range written {
		savedWritten[k] = true
	}
	vc.written, vc.writeAll = savedWritten, savedAll || all
	return written, all
}

// fieldHavoc builds the value of a struct object after a loop that writes only the given fields of it: those
// fields become arbitrary, the others keep their value. ok is false when the loop (also) writes the object as a
// whole or the component is not a struct component.
func (vc *VC) fieldHavoc(comp string, obj Term, fields map[int]bool) (Term, bool) {
	t := vc.compStruct[comp]
	if t == nil || len(fields) == 0 || fields[-1] || !strings.HasPrefix(comp, "P:") {
		return Term{}, false
	}
	st, ok := t.Underlying().(*types.Struct)
	if !ok || "P:"+typeKey(t) != comp {
		return Term{}, false
	}
	si := vc.structInfoOf(t, st)
	obj = vc.define(comp+"!pre", obj)
	var args []string
	for i := range si.fields {
		if fields[i] {
			args = append(args, vc.declFresh(comp+"!loopfld", vc.sortOf(si.ftypes[i])).S)
		} else {
			args = append(args, "("+si.fields[i]+" "+obj.S+")")
		}
	}
	return mk("("+si.ctor+" "+strings.Join(args, " ")+")", si.sort), true
}

func (vc *VC) checkBackEdge(fr *Frame, li *loopInfo, from *ssa.BasicBlock) {
	e := fr.edges[[2]int{from.Index, li.header.Index}]
	if e == nil {
		return
	}
	var spec *LoopSpec
	if fr.contract != nil {
		spec = fr.contract.Loops[li.ordinal]
	}
	if spec == nil {
		return
	}
	st := e.st.clone()
	st.reach = e.cond
	// bind phis to the back-edge values
	idx := -1
	for i, p := range li.header.Preds {
		if p == from {
			idx = i
		}
	}
	sub := map[ssa.Value]Val{}
	for _, ins := range li.header.Instrs {
		phi, ok := ins.(*ssa.Phi)
		if !ok {
			break
		}
		sub[phi] = vc.operand(fr, st, phi.Edges[idx])
	}
	for i, inv := range spec.Invariants {
		t := vc.evalClause(fr, st, inv, li.header, sub)
		vc.oblige(st, fr, "inv.step", loopTag(li, inv, i), t, inv.Src, from.Instrs[len(from.Instrs)-1].Pos())
	}
	if spec.Decreases != nil && li.measure.T.T != nil {
		nv := vc.evalClauseVal(fr, st, spec.Decreases, li.header, sub)
		old := li.measure
		var goal Term
		if vc.mode == ModeBV && nv.T.T.K == SBV {
			goal = mk(app("bvult", nv.T, old.T), sortBool)
		} else {
			goal = tAnd(mk(app("<", nv.T, old.T), sortBool), mk(app("<=", mk("0", sortInt), old.T), sortBool))
		}
		vc.oblige(st, fr, "decreases", fmt.Sprintf("loop%d", li.ordinal), goal, spec.Decreases.Src, from.Instrs[len(from.Instrs)-1].Pos())
	}
}

var identRe = regexp.MustCompile(`\|[^|]+\|`)

// stableTerm: every quoted identifier of the term is declared before the loop (so it denotes the same
// value in every iteration).
func stableTerm(t string, preText string) bool {
	for _, id := range identRe.FindAllString(t, -1) {
		if !strings.Contains(preText, "(declare-const "+id+" ") {
			return false
		}
	}
	return true
}

// groundInstances: for every conjunct "forall x int :: body" of e, the instance body[x := rangeidx()+1].
func groundInstances(e *SExpr) []*SExpr {
	if e == nil {
		return nil
	}
	if e.Op == "bin" && e.Name == "&&" {
		return append(groundInstances(e.Args[0]), groundInstances(e.Args[1])...)
	}
	if e.Op == "forall" && len(e.Binders) == 1 && e.Binders[0].Type == "int" && !strings.Contains(e.String(), "rangeidx") {
		repl := &SExpr{Op: "bin", Name: "+", Args: []*SExpr{{Op: "call", Name: "rangeidx"}, {Op: "lit", Lit: "1"}}}
		return []*SExpr{substSExpr(e.Args[0], e.Binders[0].Name, repl)}
	}
	return nil
}

func substSExpr(e *SExpr, name string, repl *SExpr) *SExpr {
	if e == nil {
		return nil
	}
	if e.Op == "id" && e.Name == name {
		return repl
	}
	if (e.Op == "forall" || e.Op == "exists") {
		for _, b := range e.Binders {
			if b.Name == name {
				return e
			}
		}
	}
	c := *e
	c.Args = nil
	for _, a := range e.Args {
		c.Args = append(c.Args, substSExpr(a, name, repl))
	}
	return &c
}
