package main

import (
	"fmt"
	"go/types"
	"sort"
	"strings"

	"golang.org/x/tools/go/ssa"
)

// Order independence of a loop that ranges over a map ("loop k: commutes on T1, T2, ...").
//
// Go visits the keys of a map in an unspecified order. The obligation generated here is that two consecutive
// iterations over two distinct, not yet visited keys k1 and k2 lead to the same outcome in either order, from
// every state that satisfies the loop invariant:
//   - both orders leave the loop by the same way (continue / break / return) under the same condition,
//   - the places listed after "on" (modifies-target syntax), the loop-carried variables and, for a return,
//     the results are equal.
// Every visiting order is reached from every other by swapping neighbours, so this pairwise condition makes the
// loop's effect on the listed places independent of the order. It is a relational obligation discharged by
// running the real loop body four times symbolically (k1;k2 and k2;k1), not a model of the code.

type iterOutcome struct {
	cont    *State          // state at the back edge (nil: the iteration never continues)
	phis    map[*ssa.Phi]Val // values of the header phis along the back edge
	brk     []*edgeInfo     // edges that leave the loop
	rets    []retInfo       // function returns inside the iteration
}

func (vc *VC) commuteCheck(fr *Frame, li *loopInfo, hst *State, spec *LoopSpec, written map[string]bool, writesAll bool) {
	h := li.header
	var nx *ssa.Next
	for _, ins := range h.Instrs {
		if n, ok := ins.(*ssa.Next); ok && !n.IsString {
			nx = n
		}
	}
	if nx == nil {
		vc.errorf("%s: loop %d: 'commutes' needs a loop that ranges over a map", funcKey(fr.fn), li.ordinal)
		return
	}
	it := vc.operand(fr, hst, nx.Iter).T
	rs, comp := vc.iters[it.S], vc.iterComp[it.S]
	if rs == nil || comp == "" {
		vc.errorf("%s: loop %d: commutes: unknown map iterator", funcKey(fr.fn), li.ordinal)
		return
	}
	m := rs.mapT
	ks := vc.sortOf(m.Key())
	k1, k2 := vc.declFresh("cm!k1", ks), vc.declFresh("cm!k2", ks)
	on := vc.declFresh("cm!on", sortBool)
	if vc.commuteKeys == nil {
		vc.commuteKeys = map[string][]Val{}
		vc.commuteKeyT = map[string]types.Type{}
	}
	vc.commuteKeys[fmt.Sprintf("@loop%d.", li.ordinal)] = []Val{{T: k1}, {T: k2}}
	vc.commuteKeyT[fmt.Sprintf("@loop%d.", li.ordinal)] = m.Key()
	mv := vc.mapValue(hst, rs.ref, m)
	dom := vc.mapAcc(m, "dom", mv)
	visited := vc.heapGet(hst.heap, comp)
	sel := func(a, k Term) Term { t := tSelect(a, k); t.T = sortBool; return t }
	cond := tAnd(on, tNot(tEq(k1, k2)), sel(dom, k1), sel(dom, k2), tNot(sel(visited, k1)), tNot(sel(visited, k2)), tNot(tEq(rs.ref, mk("0", sortRef))))
	start := hst.clone()
	start.reach = vc.define("R!cm", tAnd(hst.reach, cond))

	// save what the four hypothetical iterations overwrite
	savedEdges := map[[2]int]*edgeInfo{}
	for k, v := range fr.edges {
		savedEdges[k] = v
	}
	savedExits := len(fr.exits)
	savedEntry := fr.entryOf[h]
	phiVals := map[*ssa.Phi]Val{}
	for _, ins := range h.Instrs {
		if phi, ok := ins.(*ssa.Phi); ok {
			phiVals[phi] = fr.vals[phi]
		}
	}
	savedWritten, savedAll := vc.written, vc.writeAll
	savedRefs, savedFields := vc.writtenRefs, vc.writtenFields
	vc.written = map[string]bool{}
	for k, v := range savedWritten {
		vc.written[k] = v
	}
	savedNotes := map[string]int{}
	for k, v := range vc.notes {
		savedNotes[k] = v
	}
	savedHavoc := map[string]int{}
	for k, v := range vc.havocCalls {
		savedHavoc[k] = v
	}
	savedCnt := map[string]int{}
	for k, v := range vc.oblCnt {
		savedCnt[k] = v
	}
	vc.dry++
	vc.inCommute = true
	restorePhis := func() {
		for phi, v := range phiVals {
			fr.vals[phi] = v
		}
	}
	run := func(from *State, key Term) *iterOutcome {
		if from == nil {
			return &iterOutcome{}
		}
		return vc.runLoopOnce(fr, li, from, it, key, savedExits)
	}
	tagBase := fmt.Sprintf("loop%d", li.ordinal)
	ost := &State{reach: start.reach, heap: hst.heap, top: hst.top}
	pos := h.Instrs[0].Pos()
	// the second key must still be there after the first iteration (bodies that delete other keys are outside
	// what this obligation covers); checked before the second iteration is run, which assumes it
	stillThere := func(o *iterOutcome, k Term, i int) {
		if o.cont == nil {
			return
		}
		d := vc.mapAcc(m, "dom", vc.mapValue(o.cont, rs.ref, m))
		vc.dry--
		vc.oblige(ost, fr, "commute.dom", fmt.Sprintf("%s.%d", tagBase, i), tImp(o.cont.reach, sel(d, k)), "an iteration does not remove another key from the map it ranges over", pos)
		vc.dry++
	}
	restorePhis()
	a1 := run(start.clone(), k1)
	stillThere(a1, k2, 0)
	a2 := run(a1.cont, k2)
	restorePhis()
	b1 := run(start.clone(), k2)
	stillThere(b1, k1, 1)
	b2 := run(b1.cont, k1)
	vc.dry--
	vc.inCommute = false
	// outcome classes
	type class struct {
		name   string
		ra, rb Term
		sa, sb *State
		va, vb [][]Val // extra values to compare (phis / results), with their types
		vt     []types.Type
		vn     []string
	}
	var classes []*class
	// continue
	{
		c := &class{name: "cont", ra: tFalse, rb: tFalse}
		if a2.cont != nil {
			c.ra, c.sa = a2.cont.reach, a2.cont
		}
		if b2.cont != nil {
			c.rb, c.sb = b2.cont.reach, b2.cont
		}
		for _, ins := range h.Instrs {
			phi, ok := ins.(*ssa.Phi)
			if !ok || phi.Comment == "rangeindex" {
				continue
			}
			var xa, xb Val
			if a2.phis != nil {
				xa = a2.phis[phi]
			}
			if b2.phis != nil {
				xb = b2.phis[phi]
			}
			c.va = append(c.va, []Val{xa})
			c.vb = append(c.vb, []Val{xb})
			c.vt = append(c.vt, phi.Type())
			c.vn = append(c.vn, phiName(phi))
		}
		classes = append(classes, c)
	}
	// return
	{
		c := &class{name: "ret"}
		ra, sa, va := vc.mergeRets(fr, append(append([]retInfo{}, a1.rets...), a2.rets...), "cmA")
		rb, sb, vb := vc.mergeRets(fr, append(append([]retInfo{}, b1.rets...), b2.rets...), "cmB")
		c.ra, c.rb, c.sa, c.sb = ra, rb, sa, sb
		res := fr.fn.Signature.Results()
		for i := 0; i < res.Len(); i++ {
			var xa, xb Val
			if i < len(va) {
				xa = va[i]
			}
			if i < len(vb) {
				xb = vb[i]
			}
			c.va = append(c.va, []Val{xa})
			c.vb = append(c.vb, []Val{xb})
			c.vt = append(c.vt, res.At(i).Type())
			c.vn = append(c.vn, fmt.Sprintf("result%d", i))
		}
		classes = append(classes, c)
	}
	// break (all exit edges together)
	{
		c := &class{name: "break"}
		c.ra, c.sa = vc.mergeEdges(fr, append(append([]*edgeInfo{}, a1.brk...), a2.brk...), "cmA")
		c.rb, c.sb = vc.mergeEdges(fr, append(append([]*edgeInfo{}, b1.brk...), b2.brk...), "cmB")
		classes = append(classes, c)
	}
	for _, c := range classes {
		if c.ra.S == "false" && c.rb.S == "false" {
			continue
		}
		vc.oblige(ost, fr, "commute."+c.name, tagBase+".reach", tEq(c.ra, c.rb), "both visiting orders of two keys leave the two iterations the same way ("+c.name+")", pos)
		if c.sa == nil || c.sb == nil {
			continue
		}
		both := tAnd(c.ra, c.rb)
		if len(spec.CommuteOn) == 0 {
			// no list: everything the loop writes, as far as it existed before the loop (objects allocated inside
			// the iterations get different references in the two orders and are not compared)
			if writesAll {
				vc.oblige(ost, fr, "commute."+c.name, tagBase+".all", tImp(both, tFalse), "the loop calls code without a frame: its order independence cannot be established", pos)
			}
			var ks []string
			for k := range written {
				ks = append(ks, k)
			}
			sort.Strings(ks)
			for _, k := range ks {
				cs, known := vc.compSort[k]
				if !known || strings.HasPrefix(k, "L:") {
					continue
				}
				xa, xb := vc.heapGet(c.sa.heap, k), vc.heapGet(c.sb.heap, k)
				var goal Term
				if cs.K == SArray && (strings.HasPrefix(k, "A:") || strings.HasPrefix(k, "P:") || strings.HasPrefix(k, "M:") || strings.HasPrefix(k, "B:")) {
					goal = mk(fmt.Sprintf("(forall ((|q!r| Int)) (=> (and (<= 0 |q!r|) (< |q!r| %s)) (= (select %s |q!r|) (select %s |q!r|))))", hst.top.S, xa.S, xb.S), sortBool)
				} else {
					goal = tEq(xa, xb)
				}
				vc.oblige(ost, fr, "commute."+c.name, tagBase+"."+sanitize(k), tImp(both, goal), "order of two iterations does not matter for "+k, pos)
			}
		}
		for ti, tgt := range spec.CommuteOn {
			if spec.CommuteCont && c.name != "cont" {
				break
			}
			xa, oka := vc.readTarget(fr, c.sa, h, tgt)
			xb, okb := vc.readTarget(fr, c.sb, h, tgt)
			if !oka || !okb {
				continue
			}
			vc.oblige(ost, fr, "commute."+c.name, fmt.Sprintf("%s.on%d", tagBase, ti), tImp(both, tEq(xa, xb)), "order of two iterations does not matter for "+tgt.String(), pos)
		}
		for i := range c.va {
			xa, xb := c.va[i][0], c.vb[i][0]
			if xa.T.T == nil || xb.T.T == nil {
				continue
			}
			ta, tb := vc.valTerm(xa, c.vt[i]), vc.valTerm(xb, c.vt[i])
			if ta.T == nil || tb.T == nil {
				continue
			}
			vc.oblige(ost, fr, "commute."+c.name, tagBase+"."+sanitize(c.vn[i]), tImp(both, tEq(ta, tb)), "order of two iterations does not matter for "+c.vn[i], pos)
		}
	}

	// restore
	for k := range fr.edges {
		delete(fr.edges, k)
	}
	for k, v := range savedEdges {
		fr.edges[k] = v
	}
	fr.exits = fr.exits[:savedExits]
	fr.entryOf[h] = savedEntry
	restorePhis()
	vc.written, vc.writeAll = savedWritten, savedAll
	vc.writtenRefs, vc.writtenFields = savedRefs, savedFields
	vc.notes = savedNotes
	vc.havocCalls = savedHavoc
	// keep the obligation counters of the commute obligations, drop those of the suppressed duplicates
	for k := range vc.oblCnt {
		if !strings.HasPrefix(k, "commute.") {
			if v, ok := savedCnt[k]; ok {
				vc.oblCnt[k] = v
			} else {
				delete(vc.oblCnt, k)
			}
		}
	}
	delete(vc.forcedKey, it.S)
}

// runLoopOnce executes the blocks of the loop once, with the range instruction yielding the given key.
func (vc *VC) runLoopOnce(fr *Frame, li *loopInfo, from *State, it, key Term, exitBase int) *iterOutcome {
	h := li.header
	// forget edges of earlier hypothetical iterations
	for k := range fr.edges {
		for b := range li.blocks {
			if k[0] == b.Index {
				delete(fr.edges, k)
			}
		}
	}
	fr.exits = fr.exits[:exitBase]
	if vc.forcedKey == nil {
		vc.forcedKey = map[string]Term{}
	}
	vc.forcedKey[it.S] = key
	fr.entryOf[h] = from
	for _, b := range fr.order {
		if !li.blocks[b] {
			continue
		}
		if b != h {
			if inner := fr.loops[b]; inner != nil {
				vc.enterLoop(fr, inner)
			} else {
				fr.entryOf[b] = vc.mergePreds(fr, b, nil)
			}
			if fr.entryOf[b] == nil {
				continue
			}
		}
		vc.runBlock(fr, b)
	}
	out := &iterOutcome{}
	backPreds := map[*ssa.BasicBlock]bool{}
	for _, p := range h.Preds {
		if li.blocks[p] {
			backPreds[p] = true
		}
	}
	if st := vc.mergePreds(fr, h, backPreds); st != nil {
		out.cont = st
		out.phis = map[*ssa.Phi]Val{}
		for _, ins := range h.Instrs {
			if phi, ok := ins.(*ssa.Phi); ok {
				out.phis[phi] = fr.vals[phi]
			}
		}
	}
	for k, e := range fr.edges {
		var fromB, toB *ssa.BasicBlock
		for _, b := range fr.fn.Blocks {
			if b.Index == k[0] {
				fromB = b
			}
			if b.Index == k[1] {
				toB = b
			}
		}
		if fromB != nil && toB != nil && li.blocks[fromB] && !li.blocks[toB] {
			out.brk = append(out.brk, e)
		}
	}
	out.rets = append(out.rets, fr.exits[exitBase:]...)
	fr.exits = fr.exits[:exitBase]
	return out
}

func (vc *VC) mergeRets(fr *Frame, rets []retInfo, tag string) (Term, *State, []Val) {
	if len(rets) == 0 {
		return tFalse, nil, nil
	}
	var conds []Term
	for _, e := range rets {
		conds = append(conds, e.st.reach)
	}
	st := &State{reach: vc.define("R!"+tag+"ret", tOr(conds...))}
	st.heap = vc.mergeHeaps(fr, nil, conds, func(i int) *Heap { return rets[i].st.heap }, len(rets))
	st.top = rets[len(rets)-1].st.top
	res := fr.fn.Signature.Results()
	var rs []Val
	for i := 0; i < res.Len(); i++ {
		var col []Val
		for _, e := range rets {
			col = append(col, e.results[i])
		}
		rs = append(rs, vc.iteVals(fmt.Sprintf("%s!ret%d", tag, i), conds, col, res.At(i).Type()))
	}
	return st.reach, st, rs
}

func (vc *VC) mergeEdges(fr *Frame, es []*edgeInfo, tag string) (Term, *State) {
	if len(es) == 0 {
		return tFalse, nil
	}
	var conds []Term
	for _, e := range es {
		conds = append(conds, e.cond)
	}
	st := &State{reach: vc.define("R!"+tag+"brk", tOr(conds...))}
	st.heap = vc.mergeHeaps(fr, nil, conds, func(i int) *Heap { return es[i].st.heap }, len(es))
	st.top = es[len(es)-1].st.top
	return st.reach, st
}

// readTarget reads the current value of a place given in modifies-target syntax.
func (vc *VC) readTarget(fr *Frame, st *State, at *ssa.BasicBlock, tgt *SExpr) (t Term, ok bool) {
	defer func() {
		if r := recover(); r != nil {
			if se, isSpec := r.(specErr); isSpec {
				vc.errorf("commutes on %s: %s", tgt.String(), se.msg)
				ok = false
				return
			}
			panic(r)
		}
	}()
	env := vc.frameEnv(fr, st, at, nil)
	mt := vc.modTarget(env, tgt)
	switch mt.kind {
	case "place":
		return vc.loadPlace(st, mt.place), true
	case "arr":
		comp := vc.tgtArrComp(mt)
		return tSelect(vc.heapGet(st.heap, comp), mt.ref), true
	case "comp":
		return vc.heapGet(st.heap, mt.comp), true
	}
	return Term{}, false
}
