package main

import (
	"bufio"
	"fmt"
	"os"
	"path/filepath"
	"regexp"
	"strconv"
	"strings"
)

// Clause is one requires/ensures/invariant with an optional stable label.
type Clause struct {
	Implicit interface{}     // engine-generated clause (e.g. the range index phi)
	Consts map[string]int64 // constants bound by "each k lo hi ::" expansion
	Label string
	Src   string
	Expr  *SExpr
	File  string
	Line  int
}

type LoopSpec struct {
	Invariants []*Clause
	Decreases  *Clause
	AtEntry    []*Clause // "loop k: atentry e"
	Commutes   bool     // "loop k: commutes on T1, T2": order independence of a map-range loop (commute.go)
	CommuteCont bool    // "commutes oncontinue ...": places compared at the back edge only
	CommuteOn  []*SExpr // places (modifies-target syntax) that must not depend on the visiting order
}

type SpecFn struct {
	Opaque bool
	Abstract bool // uninterpreted, never revealed
	Macro    bool // expanded at each use in the current state (may read heap and ghost state)
	Name   string
	Params []Binder
	Ret    string
	Body   string
	Expr   *SExpr
	Rec    bool
	Pkg    string
	File   string
	Line   int
}

// Contract is the contract block of one function.
type Contract struct {
	Pkg        string // package path
	Func       string // key: name, (*T).name, T.name, name$1
	Properties []string
	Requires   []*Clause
	Ensures    []*Clause
	Modifies   []*SExpr
	HasMod     bool
	Loops      map[int]*LoopSpec
	Options    map[string]string // inline, trusted, pure, intmode, nopanic, ...
	Asserts    map[string][]*Clause
	File       string
	Line       int
	Used       bool
}

func (c *Contract) opt(k string) bool { _, ok := c.Options[k]; return ok }

type LemmaSpec struct {
	Name       string
	Pkg        string
	Properties []string
	Params     []Binder
	Requires   []*Clause
	Ensures    []*Clause
	Options    map[string]string
	File       string
	Line       int
}

// TableSpec describes a "family contract" over a table literal (EVM jump table).
type ContractFile struct {
	Pkg       string
	Path      string
	SMT       []string
	SpecFns   []*SpecFn
	Contracts []*Contract
	Lemmas    []*LemmaSpec
	Ghosts    []string
	Types     []string // "NAME = go type expression" (names for type literals, usable where a type name is expected)
}

var keywordRe = regexp.MustCompile(`^(func|spec|smt|property|requires|ensures|loop|modifies|option|lemma|end|ghost|param|type)\b`)
var labelRe = regexp.MustCompile(`^\[([A-Za-z0-9_.\-!]+)\]\s*`)

func parseContractFile(path, pkgPath string) (*ContractFile, error) {
	f, err := os.Open(path)
	if err != nil {
		return nil, err
	}
	defer f.Close()
	cf := &ContractFile{Pkg: pkgPath, Path: path}
	type rawLine struct {
		text string
		line int
	}
	var lines []rawLine
	sc := bufio.NewScanner(f)
	sc.Buffer(make([]byte, 1<<20), 1<<20)
	n := 0
	for sc.Scan() {
		n++
		t := sc.Text()
		ts := strings.TrimSpace(t)
		if !strings.HasPrefix(ts, "//@") {
			continue
		}
		body := strings.TrimPrefix(ts, "//@")
		lines = append(lines, rawLine{body, n})
	}
	// join continuation lines
	var stmts []rawLine
	for _, l := range lines {
		t := strings.TrimSpace(l.text)
		if t == "" {
			continue
		}
		if strings.HasPrefix(t, "#") { // comment inside contract block
			continue
		}
		if keywordRe.MatchString(t) || len(stmts) == 0 {
			stmts = append(stmts, rawLine{t, l.line})
		} else {
			stmts[len(stmts)-1].text += " " + t
		}
	}
	var cur *Contract
	var curLemma *LemmaSpec
	mkClause := func(src string, line int) (*Clause, error) {
		c := &Clause{File: path, Line: line}
		if m := labelRe.FindStringSubmatch(src); m != nil {
			c.Label = m[1]
			src = src[len(m[0]):]
		}
		c.Src = src
		e, err := parseSpec(src)
		if err != nil {
			return nil, fmt.Errorf("%s:%d: %v", path, line, err)
		}
		c.Expr = e
		return c, nil
	}
	// "each k LO HI :: body" expands into one clause per constant k (separate obligations)
	eachRe := regexp.MustCompile(`^(\[[^\]]+\]\s*)?each\s+([A-Za-z_][A-Za-z0-9_]*)\s+(\d+)\s+(\d+)\s*::\s*(.*)$`)
	mkClauses := func(src string, line int) ([]*Clause, error) {
		m := eachRe.FindStringSubmatch(src)
		if m == nil {
			c, err := mkClause(src, line)
			if err != nil {
				return nil, err
			}
			return []*Clause{c}, nil
		}
		lo, _ := strconv.ParseInt(m[3], 10, 64)
		hi, _ := strconv.ParseInt(m[4], 10, 64)
		var out []*Clause
		for k := lo; k < hi; k++ {
			c, err := mkClause(m[1]+m[5], line)
			if err != nil {
				return nil, err
			}
			c.Consts = map[string]int64{m[2]: k}
			c.Label = fmt.Sprintf("%s.%s%d", c.Label, m[2], k)
			c.Src = fmt.Sprintf("[%s=%d] %s", m[2], k, c.Src)
			out = append(out, c)
		}
		return out, nil
	}
	for _, s := range stmts {
		kw := keywordRe.FindString(s.text)
		rest := strings.TrimSpace(s.text[len(kw):])
		switch kw {
		case "smt":
			cf.SMT = append(cf.SMT, rest)
		case "ghost":
			cf.Ghosts = append(cf.Ghosts, rest)
		case "type":
			cf.Types = append(cf.Types, rest)
		case "spec":
			sf, err := parseSpecFn(rest, path, s.line)
			if err != nil {
				return nil, err
			}
			sf.Pkg = pkgPath
			cf.SpecFns = append(cf.SpecFns, sf)
		case "func":
			name := rest
			if i := strings.Index(name, " "); i >= 0 && !strings.HasPrefix(name, "(") {
				name = name[:i]
			}
			name = strings.TrimSpace(name)
			cur = &Contract{Pkg: pkgPath, Func: name, Loops: map[int]*LoopSpec{}, Options: map[string]string{}, Asserts: map[string][]*Clause{}, File: path, Line: s.line}
			curLemma = nil
			cf.Contracts = append(cf.Contracts, cur)
		case "lemma":
			// lemma name(a T, b U)
			lm, err := parseLemmaHead(rest, path, s.line)
			if err != nil {
				return nil, err
			}
			lm.Pkg = pkgPath
			curLemma = lm
			cur = nil
			cf.Lemmas = append(cf.Lemmas, lm)
		case "end":
			cur, curLemma = nil, nil
		default:
			if cur == nil && curLemma == nil {
				return nil, fmt.Errorf("%s:%d: %q outside a func/lemma block", path, s.line, kw)
			}
			switch kw {
			case "property":
				ps := strings.Fields(strings.ReplaceAll(rest, ",", " "))
				if cur != nil {
					cur.Properties = append(cur.Properties, ps...)
				} else {
					curLemma.Properties = append(curLemma.Properties, ps...)
				}
			case "requires", "ensures":
				cs, err := mkClauses(rest, s.line)
				if err != nil {
					return nil, err
				}
				if cur != nil {
					if kw == "requires" {
						cur.Requires = append(cur.Requires, cs...)
					} else {
						cur.Ensures = append(cur.Ensures, cs...)
					}
				} else {
					if kw == "requires" {
						curLemma.Requires = append(curLemma.Requires, cs...)
					} else {
						curLemma.Ensures = append(curLemma.Ensures, cs...)
					}
				}
			case "modifies":
				if cur == nil {
					return nil, fmt.Errorf("%s:%d: modifies in lemma", path, s.line)
				}
				cur.HasMod = true
				if rest == "" || rest == "nothing" {
					break
				}
				for _, part := range splitTopLevel(rest, ',') {
					e, err := parseSpec(strings.TrimSpace(part))
					if err != nil {
						return nil, fmt.Errorf("%s:%d: %v", path, s.line, err)
					}
					cur.Modifies = append(cur.Modifies, e)
				}
			case "loop":
				if cur == nil {
					return nil, fmt.Errorf("%s:%d: loop in lemma", path, s.line)
				}
				// loop K: invariant e | loop K: decreases e
				i := strings.Index(rest, ":")
				if i < 0 {
					return nil, fmt.Errorf("%s:%d: loop clause needs 'loop K: invariant e'", path, s.line)
				}
				k, err := strconv.Atoi(strings.TrimSpace(rest[:i]))
				if err != nil {
					return nil, fmt.Errorf("%s:%d: bad loop ordinal", path, s.line)
				}
				r2 := strings.TrimSpace(rest[i+1:])
				ls := cur.Loops[k]
				if ls == nil {
					ls = &LoopSpec{}
					cur.Loops[k] = ls
				}
				switch {
				case strings.HasPrefix(r2, "invariant"):
					c, err := mkClause(strings.TrimSpace(r2[len("invariant"):]), s.line)
					if err != nil {
						return nil, err
					}
					ls.Invariants = append(ls.Invariants, c)
				case strings.HasPrefix(r2, "atentry"):
					// "loop k: atentry e": e holds when the loop is first reached (an assertion at that program
					// point: checked there, not assumed inside the loop and not required of the back edges)
					c, err := mkClause(strings.TrimSpace(r2[len("atentry"):]), s.line)
					if err != nil {
						return nil, err
					}
					ls.AtEntry = append(ls.AtEntry, c)
				case strings.HasPrefix(r2, "decreases"):
					c, err := mkClause(strings.TrimSpace(r2[len("decreases"):]), s.line)
					if err != nil {
						return nil, err
					}
					ls.Decreases = c
				case strings.HasPrefix(r2, "commutes"):
					ls.Commutes = true
					r3 := strings.TrimSpace(r2[len("commutes"):])
					if strings.HasPrefix(r3, "oncontinue") {
						// the listed places are compared where both orders continue; where they leave the loop
						// (break / return) only the way out and the results are compared
						ls.CommuteCont = true
						r3 = strings.TrimSpace(strings.TrimPrefix(r3, "oncontinue"))
					} else {
						r3 = strings.TrimSpace(strings.TrimPrefix(r3, "on"))
					}
					if r3 != "" {
						for _, part := range splitTopLevel(r3, ',') {
							e, err := parseSpec(strings.TrimSpace(part))
							if err != nil {
								return nil, fmt.Errorf("%s:%d: %v", path, s.line, err)
							}
							ls.CommuteOn = append(ls.CommuteOn, e)
						}
					}
				default:
					return nil, fmt.Errorf("%s:%d: loop clause must be invariant, atentry, decreases or commutes", path, s.line)
				}
			case "option":
				for _, o := range strings.Fields(rest) {
					kv := strings.SplitN(o, "=", 2)
					v := ""
					if len(kv) == 2 {
						v = kv[1]
					}
					if cur != nil {
						cur.Options[kv[0]] = v
					} else {
						curLemma.Options[kv[0]] = v
					}
				}
			case "param":
				// lemma parameter continuation: param x T
				if curLemma == nil {
					return nil, fmt.Errorf("%s:%d: param outside lemma", path, s.line)
				}
				fs := strings.Fields(rest)
				if len(fs) != 2 {
					return nil, fmt.Errorf("%s:%d: param NAME TYPE", path, s.line)
				}
				curLemma.Params = append(curLemma.Params, Binder{fs[0], fs[1]})
			}
		}
	}
	return cf, nil
}

func splitTopLevel(s string, sep rune) []string {
	var out []string
	depth := 0
	last := 0
	for i, c := range s {
		switch c {
		case '(', '[':
			depth++
		case ')', ']':
			depth--
		default:
			if c == sep && depth == 0 {
				out = append(out, s[last:i])
				last = i + 1
			}
		}
	}
	out = append(out, s[last:])
	return out
}

var specFnRe = regexp.MustCompile(`^((?:rec|opaque|abstract|macro)\s+)?fn\s+([A-Za-z_][A-Za-z0-9_]*)\s*\(([^)]*)\)\s*([A-Za-z0-9_\[\]\.]+)\s*(?:=\s*(.*))?$`)

func parseSpecFn(rest, path string, line int) (*SpecFn, error) {
	m := specFnRe.FindStringSubmatch(rest)
	if m == nil {
		return nil, fmt.Errorf("%s:%d: bad spec fn syntax: %q", path, line, rest)
	}
	sf := &SpecFn{Name: m[2], Ret: m[4], Body: m[5], Rec: strings.HasPrefix(m[1], "rec"), Opaque: strings.HasPrefix(m[1], "opaque"), Abstract: strings.HasPrefix(m[1], "abstract"), Macro: strings.HasPrefix(m[1], "macro"), File: path, Line: line}
	if sf.Abstract {
		// abstract: an uninterpreted function (no definition anywhere); the body, if given, is ignored
		sf.Body = "true"
	} else if strings.TrimSpace(sf.Body) == "" {
		return nil, fmt.Errorf("%s:%d: spec fn %s needs a body (or the keyword abstract)", path, line, sf.Name)
	}
	ps := strings.TrimSpace(m[3])
	if ps != "" {
		for _, p := range strings.Split(ps, ",") {
			fs := strings.Fields(p)
			if len(fs) != 2 {
				return nil, fmt.Errorf("%s:%d: bad spec fn param %q", path, line, p)
			}
			sf.Params = append(sf.Params, Binder{fs[0], fs[1]})
		}
	}
	e, err := parseSpec(sf.Body)
	if err != nil {
		return nil, fmt.Errorf("%s:%d: %v", path, line, err)
	}
	sf.Expr = e
	return sf, nil
}

var lemmaRe = regexp.MustCompile(`^([A-Za-z_][A-Za-z0-9_.]*)\s*(?:\(([^)]*)\))?$`)

func parseLemmaHead(rest, path string, line int) (*LemmaSpec, error) {
	m := lemmaRe.FindStringSubmatch(strings.TrimSpace(rest))
	if m == nil {
		return nil, fmt.Errorf("%s:%d: bad lemma head %q", path, line, rest)
	}
	lm := &LemmaSpec{Name: m[1], Options: map[string]string{}, File: path, Line: line}
	ps := strings.TrimSpace(m[2])
	if ps != "" {
		for _, p := range strings.Split(ps, ",") {
			fs := strings.Fields(p)
			if len(fs) != 2 {
				return nil, fmt.Errorf("%s:%d: bad lemma param %q", path, line, p)
			}
			lm.Params = append(lm.Params, Binder{fs[0], fs[1]})
		}
	}
	return lm, nil
}

// findContractFiles returns all contract files under repo/src.
func findContractFiles(repo string) ([]string, error) {
	var out []string
	err := filepath.Walk(filepath.Join(repo, "src"), func(p string, info os.FileInfo, err error) error {
		if err != nil {
			return nil
		}
		if !info.IsDir() && strings.HasPrefix(info.Name(), "zz_verif_contracts") && strings.HasSuffix(info.Name(), ".go") {
			out = append(out, p)
		}
		return nil
	})
	return out, err
}
