package main

import (
	"fmt"
	"go/constant"
	"go/token"
	"go/types"
	"sort"
	"strings"

	"golang.org/x/tools/go/ssa"
)

type allocRec struct {
	size Term
	elem string
}

// effect-free callees: results are arbitrary, the heap is untouched.
var effectFreePrefixes = []string{
	"fmt.Sprintf", "fmt.Sprint", "fmt.Errorf", "fmt.Println", "fmt.Printf", "fmt.Sprintln", "fmt.Fprintf",
	"errors.New", "github.com/pkg/errors.New", "github.com/pkg/errors.Errorf", "strconv.", "strings.", "(*strings.Builder).", "unicode.", "utf8.", "unicode/utf8.",
	"time.Now", "(time.Time).", "time.Since", "(time.Duration).",
	"encoding/hex.EncodeToString", "encoding/hex.DecodeString",
	"(*sync.Mutex).", "(*sync.RWMutex).", "(*sync/atomic.", "sync/atomic.Load",
	"math.", "math/bits.", "bytes.Equal", "bytes.Compare", "bytes.HasPrefix",
	"com.tuntun.rangers/node/src/middleware/log.", "(com.tuntun.rangers/node/src/middleware/log.Logger).",
	"(*com.tuntun.rangers/node/src/middleware/log.", "com.tuntun.rangers/node/src/utility.GetTime",
	"com.tuntun.rangers/node/src/utility.StrToBytes", "com.tuntun.rangers/node/src/utility.BytesToStr", "com.tuntun.rangers/node/src/common.ToHex", "com.tuntun.rangers/node/src/common.Bytes2Hex", "com.tuntun.rangers/node/src/common.FromHex",
	"(com.tuntun.rangers/node/src/common.Address).", "(com.tuntun.rangers/node/src/common.Hash).",
	"com.tuntun.rangers/node/src/common.BytesToSign", "(*com.tuntun.rangers/node/src/common.Sign).Bytes", "(com.tuntun.rangers/node/src/common.Sign).Bytes", "(*com.tuntun.rangers/node/src/common.Sign).GetHexString",
	"(time.Time).MarshalBinary", "(*math/big.Int).Bytes", "(*math/big.Int).String", "(*math/big.Int).Text",
	"github.com/gogo/protobuf/proto.Marshal", "github.com/golang/protobuf/proto.Marshal",
	"com.tuntun.rangers/node/src/common.BytesToAddress", "com.tuntun.rangers/node/src/common.BytesToHash", "com.tuntun.rangers/node/src/common.HexToAddress", "com.tuntun.rangers/node/src/common.HexToHash",
	"com.tuntun.rangers/node/src/common.HexStringToAddress", "com.tuntun.rangers/node/src/common.BigToAddress",
	"com.tuntun.rangers/node/src/common.IsProposal", "com.tuntun.rangers/node/src/common.GetBlockHeight", "com.tuntun.rangers/node/src/common.IsMainnet", "com.tuntun.rangers/node/src/common.IsRobin", "com.tuntun.rangers/node/src/common.IsDEV",
	"com.tuntun.rangers/node/src/common.GetChainId", "com.tuntun.rangers/node/src/common.Sha256", "com.tuntun.rangers/node/src/common.IsSub",
	"(*encoding/json.", "encoding/json.Marshal",
	"com.tuntun.rangers/node/src/middleware/mysql.", "(*com.tuntun.rangers/node/src/middleware/notify.Bus).Publish", "encoding/binary.", "(encoding/binary.",
	"(*bytes.Buffer).", "(error).Error", "(*errors.errorString).Error", "sort.Search",
	"(reflect.Type).", "(reflect.Value).Kind", "(reflect.Value).Type", "(reflect.Value).Len", "(reflect.Value).IsNil", "(reflect.Value).Uint", "(reflect.Value).Int", "(reflect.Value).Bool", "(reflect.Value).Bytes", "(reflect.Value).String", "reflect.TypeOf", "reflect.ValueOf",
	"(reflect.Kind).String", "(*reflect.rtype).",
	"golang.org/x/crypto/sha3.", "(hash.Hash).", "crypto/sha256.Sum256", "com.tuntun.rangers/node/src/eth_crypto.Keccak256",
}

// decodeInto: functions whose only effect is to overwrite the object a pointer argument refers to.
var decodeInto = map[string]int{
	"encoding/json.Unmarshal":                    1,
	"github.com/gogo/protobuf/proto.Unmarshal":   1,
	"github.com/golang/protobuf/proto.Unmarshal": 1,
	"(*time.Time).UnmarshalBinary":               0,
	"(*time.Time).UnmarshalJSON":                 0,
	"(*math/big.Int).SetString":                  0,
}

// pure functions among the effect-free callees: deterministic functions of value arguments (strings, integers,
// arrays). Their result is an uninterpreted function of the arguments instead of a fresh value per call, which
// relational obligations (commute.go) need.
var pureFns = map[string]bool{
	"com.tuntun.rangers/node/src/common.HexToAddress": true, "com.tuntun.rangers/node/src/common.HexToHash": true,
	"com.tuntun.rangers/node/src/common.HexStringToAddress": true,
	"strings.ToLower": true, "strings.ToUpper": true, "strings.TrimSpace": true,
}

func (vc *VC) pureCall(st *State, full string, args []Val, resType types.Type) (Val, bool) {
	if !pureFns[full] || resType == nil {
		return Val{}, false
	}
	if _, isTuple := resType.(*types.Tuple); isTuple {
		return Val{}, false
	}
	rs := vc.sortOf(resType)
	valueSort := func(s *Sort) bool {
		return s != nil && (s.K == SInt || s.K == SBV || s.K == SBool || s.K == SArray || s == sortStr || s.Name == "Str")
	}
	if !valueSort(rs) {
		return Val{}, false
	}
	var as []Term
	var sig []string
	for _, a := range args {
		if a.P != nil || a.T.T == nil || !valueSort(a.T.T) {
			return Val{}, false
		}
		as = append(as, a.T)
		sig = append(sig, a.T.T.Name)
	}
	name := smtIdent("pure!" + shortName(full))
	decl := fmt.Sprintf("(declare-fun %s (%s) %s)", name, strings.Join(sig, " "), rs.Name)
	if !vc.pureDecl[decl] {
		if vc.pureDecl == nil {
			vc.pureDecl = map[string]bool{}
		}
		vc.pureDecl[decl] = true
		vc.sortDecls = append(vc.sortDecls, decl)
	}
	if rs == sortStr || rs.Name == "Str" {
		vc.needStr = true
	}
	r := vc.define("pure", mk(app(name, as...), rs))
	vc.assumeWF(st, r, resType)
	return Val{T: r}, true
}

func isEffectFree(full string) bool {
	for _, p := range effectFreePrefixes {
		if strings.HasPrefix(full, p) {
			return true
		}
	}
	return false
}

func (vc *VC) autoInline(callee *ssa.Function) bool {
	if callee == nil || len(callee.Blocks) == 0 {
		return false
	}
	if !strings.HasPrefix(fnPkgPath(callee), modulePath) {
		return false
	}
	// field/curve arithmetic (embedded limb arrays, constant-time bit tricks) is outside the subset: always havoc
	if strings.HasSuffix(fnPkgPath(callee), "/ed25519/edwards25519") {
		return false
	}
	n := 0
	for _, b := range callee.Blocks {
		for _, ins := range b.Instrs {
			if _, ok := ins.(*ssa.DebugRef); ok {
				continue
			}
			n++
			switch ins.(type) {
			case *ssa.Go, *ssa.Select, *ssa.Send, *ssa.Defer:
				return false
			}
		}
		for _, s := range b.Succs {
			if s.Dominates(b) {
				return false // loops need invariants
			}
		}
	}
	return n <= 40
}

func (vc *VC) call(fr *Frame, st *State, ins ssa.Instruction, cc *ssa.CallCommon, res ssa.Value) {
	setRes := func(v Val) {
		if res != nil {
			vc.setVal(fr, res, v)
		}
	}
	pos := ins.Pos()
	// builtins
	if b, ok := cc.Value.(*ssa.Builtin); ok {
		setRes(vc.builtin(fr, st, b, cc, res, pos))
		return
	}
	var args []Val
	var argTypes []types.Type
	callee := cc.StaticCallee()
	if cc.IsInvoke() {
		args = append(args, vc.operand(fr, st, cc.Value))
		argTypes = append(argTypes, cc.Value.Type())
	}
	for _, a := range cc.Args {
		args = append(args, vc.operand(fr, st, a))
		argTypes = append(argTypes, a.Type())
	}
	var resType types.Type
	if res != nil {
		resType = res.Type()
	} else {
		resType = cc.Signature().Results()
	}
	// closures created in this function: call the underlying function with its bindings
	if callee == nil && !cc.IsInvoke() {
		fv := vc.operand(fr, st, cc.Value)
		if mc, ok := vc.closures[fv.T.S]; ok {
			callee = mc.Fn.(*ssa.Function)
			if vc.P.contractOf(callee) != nil || vc.autoInline(callee) {
				setRes(vc.inlineCall(fr, st, callee, args, vc.closureBind[fv.T.S], pos))
				return
			}
		}
		if fr.contract != nil {
			if fam := fr.contract.Options["dyncall"]; fam != "" {
				if v, ok := vc.dynCall(fr, st, fam, fv, args, argTypes, resType, pos); ok {
					setRes(v)
					return
				}
			}
		}
		callee = nil
	}
	// calls through a function-typed struct field (evm.Context.CanTransfer(...)): a contract may be written for
	// the field as "StructType.field"; embedded structs are searched by the field's declaring struct
	var fieldCon *Contract
	if callee == nil && !cc.IsInvoke() {
		if ld, ok := cc.Value.(*ssa.UnOp); ok && ld.Op == token.MUL {
			if fa, ok := ld.X.(*ssa.FieldAddr); ok {
				sty := derefType(fa.X.Type())
				if n, ok := sty.(*types.Named); ok && n.Obj().Pkg() != nil {
					fname := sty.Underlying().(*types.Struct).Field(fa.Field).Name()
					fieldCon = vc.P.Contracts[n.Obj().Pkg().Path()+"::"+n.Obj().Name()+"."+fname]
					if fieldCon != nil {
						// "this" names the struct holding the function value
						tv := vc.operand(fr, st, fa.X)
						vc.pendingThis, vc.pendingThisType = &tv, fa.X.Type()
					}
				}
			}
		}
	}
	var full string
	if callee != nil {
		full = callee.String()
	} else if cc.IsInvoke() {
		full = "(" + typeKeyFull(cc.Value.Type()) + ")." + cc.Method.Name()
	} else {
		full = "dynamic:" + cc.Value.Name()
	}
	// 0. fork flags: common.IsProposalNNN() reads chain configuration and the current block height, which
	// are constant while one transaction executes: modelled as an uninterpreted boolean constant
	if callee != nil && strings.HasPrefix(full, modulePath+"/src/common.IsProposal") && len(cc.Args) == 0 {
		setRes(Val{T: vc.flagConst(callee.Name())})
		return
	}
	// decode-into functions write only the object their pointer argument refers to
	if callee != nil {
		if idx, ok := decodeInto[full]; ok && idx < len(args) {
			vc.libUsed[full+" (writes only its target)"]++
			tgt := args[idx]
			if mi, isMI := cc.Args[idx].(*ssa.MakeInterface); isMI {
				tgt = vc.operand(fr, st, mi.X)
			}
			if tgt.P != nil {
				nv := vc.declFresh("decoded", vc.sortOf(tgt.P.Typ))
				vc.assumeWF(st, nv, tgt.P.Typ)
				vc.storePlace(st, tgt.P, nv)
			} else {
				vc.havocAll(st)
			}
			if idx == 0 && len(argTypes) > 0 && types.Identical(resType, argTypes[0]) {
				setRes(args[0]) // fluent setters return their receiver
				return
			}
			res := vc.freshVal(st, "dec!"+shortName(full), resType)
			if full == "(*time.Time).UnmarshalBinary" && tgt.P != nil && len(args) > 1 && args[1].T.T != nil {
				// what a successful decode stores is a function of the bytes decoded (timedec, uninterpreted):
				// the zone offset is part of the encoding, so is it of the value
				ts := vc.sortOf(tgt.P.Typ)
				vc.declTimeDec(ts)
				vc.needBytes = true
				sl := args[1].T
				arr := tSelect(vc.heapGet(st.heap, vc.arrComp(types.Typ[types.Uint8])), mk("(sl-ref "+sl.S+")", sortRef))
				bs := vc.bytesOf(arr, mk("(sl-off "+sl.S+")", vc.idxSort()), mk("(sl-len "+sl.S+")", vc.idxSort()))
				dec := mk("(timedec "+bs.S+")", ts)
				vc.assume(st, tImp(tEq(res.T, vc.zeroOfSort(res.T.T, nil)), tEq(vc.loadPlace(st, tgt.P), dec)))
			}
			setRes(res)
			return
		}
	}
	// 1. library model
	if callee != nil {
		if m := libModel(full); m != nil {
			setRes(m(vc, fr, st, args, argTypes, resType, pos))
			return
		}
	}
	// 2. contract
	var con *Contract
	if callee != nil {
		con = vc.P.contractOf(callee)
	} else if cc.IsInvoke() {
		con = vc.ifaceContract(cc)
	} else if fieldCon != nil {
		con = fieldCon
	}
	if con == nil {
		// contracts restricted to an argument type are tried before the unrestricted ones
		exts := append([]*Contract{}, vc.P.Externs[full]...)
		sort.SliceStable(exts, func(i, j int) bool {
			ri := exts[i].Options["argtype"] != "" || exts[i].Options["in"] != ""
			rj := exts[j].Options["argtype"] != "" || exts[j].Options["in"] != ""
			return ri && !rj
		})
		for _, ec := range exts {
			if in := ec.Options["in"]; in != "" {
				// in=PKG restricts the contract to calls made from functions of the package whose path ends in PKG
				// (an untyped library container used with one key type by one package)
				if !strings.HasSuffix(fnPkgPath(fr.fn), in) {
					continue
				}
			}
			if at := ec.Options["argtype"]; at != "" {
				// argtype=IDX:TYPE restricts the contract to calls whose IDX-th argument has this static type
				parts := strings.SplitN(at, ":", 2)
				var idx int
				fmt.Sscan(parts[0], &idx)
				src := cc.Args
				if idx >= len(src) {
					continue
				}
				var v ssa.Value = src[idx]
				if mi, ok := v.(*ssa.MakeInterface); ok {
					v = mi.X
				}
				if len(parts) < 2 || typeKey(v.Type()) != parts[1] {
					continue
				}
				// boxed arguments are passed to the contract unboxed
				if _, ok := cc.Args[idx].(*ssa.MakeInterface); ok {
					ai := idx
					if cc.IsInvoke() {
						ai++
					}
					args[ai] = vc.operand(fr, st, v)
					argTypes[ai] = v.Type()
				}
			}
			con = ec
			break
		}
	}
	if con != nil {
		if con.opt("inline") && callee != nil {
			setRes(vc.inlineCall(fr, st, callee, args, nil, pos))
			return
		}
		var sig *types.Signature
		if callee != nil {
			sig = callee.Signature
		} else {
			sig = cc.Signature()
		}
		setRes(vc.applyContract(fr, st, con, callee, sig, cc, args, argTypes, resType, pos))
		return
	}
	// 3. effect-free allow-list
	if isEffectFree(full) {
		vc.effectFree[full]++
		if pv, ok := vc.pureCall(st, full, args, resType); ok {
			// a pure function of value arguments: the same arguments give the same result
			vc.effectFree[full+" (as a function of its arguments)"]++
			setRes(pv)
			return
		}
		v := vc.freshVal(st, "ef!"+shortName(full), resType)
		if full == "errors.New" || full == "fmt.Errorf" || full == "github.com/pkg/errors.New" || full == "github.com/pkg/errors.Errorf" {
			vc.assume(st, tNot(tEq(v.T, mk("(mk-iface 0 0)", sortIface))))
		}
		if full == "fmt.Sprintf" && len(cc.Args) > 0 {
			// a constant format that starts with literal text yields a non-empty string
			if k, ok := cc.Args[0].(*ssa.Const); ok && k.Value != nil && k.Value.Kind() == constant.String {
				if f := constant.StringVal(k.Value); len(f) > 0 && f[0] != '%' {
					vc.assume(st, tNot(tEq(v.T, vc.strLit(""))))
				}
			}
		}
		setRes(v)
		return
	}
	// 4. auto-inline small helpers of this module
	if callee != nil && fr.depth < maxInlineDepth && vc.autoInline(callee) && !vc.onStack(fr, callee) {
		var binds []Val
		if mc, ok := cc.Value.(*ssa.MakeClosure); ok {
			// direct call (or defer) of a function literal: its free variables are the closure's bindings
			for _, b := range mc.Bindings {
				binds = append(binds, vc.operand(fr, st, b))
			}
		}
		setRes(vc.inlineCall(fr, st, callee, args, binds, pos))
		return
	}
	// 5. havoc
	vc.havocCalls[full]++
	// pointers to locals passed to unknown code: their contents are havocked too
	for _, a := range args {
		if a.P != nil && a.P.Kind == BLocal {
			nv := vc.declFresh(a.P.Comp+"!havoc", vc.compSort[a.P.Comp])
			st.heap.known[a.P.Comp] = nv
		}
	}
	vc.havocAll(st)
	setRes(vc.freshVal(st, "hv!"+shortName(full), resType))
}

func typeKeyFull(t types.Type) string {
	return types.TypeString(t, func(p *types.Package) string { return p.Path() })
}

func shortName(full string) string {
	if i := strings.LastIndex(full, "/"); i >= 0 {
		full = full[i+1:]
	}
	return sanitize(full)
}

func (vc *VC) onStack(fr *Frame, callee *ssa.Function) bool {
	for f := fr; f != nil; f = f.parent {
		if f.fn == callee {
			return true
		}
	}
	return false
}

// ifaceContract finds a contract written for an interface method: key "IfaceName.Method" in the
// package that declares the interface.
func (vc *VC) ifaceContract(cc *ssa.CallCommon) *Contract {
	n, ok := cc.Value.Type().(*types.Named)
	if !ok || n.Obj().Pkg() == nil {
		return nil
	}
	return vc.P.Contracts[n.Obj().Pkg().Path()+"::"+n.Obj().Name()+"."+cc.Method.Name()]
}

func (vc *VC) inlineCall(fr *Frame, st *State, callee *ssa.Function, args []Val, bindings []Val, pos token.Pos) Val {
	if fr.depth >= maxInlineDepth+2 {
		vc.errorf("inlining too deep at %s", callee.Name())
		return vc.freshVal(st, "deep", callee.Signature.Results())
	}
	nf := vc.newFrame(callee, fr)
	nf.args = args
	if len(bindings) > 0 {
		nf.freeVar = map[string]Val{}
		for i, fv := range callee.FreeVars {
			if i < len(bindings) {
				nf.freeVar[fv.Name()] = bindings[i]
			}
		}
	}
	vc.inlined[shortFuncName(callee)]++
	// the callee runs in a copy of the caller's state; afterwards the caller continues in the exit state
	est, rs := vc.runBody(nf, st.clone())
	st.heap, st.top, st.reach = est.heap, est.top, est.reach
	st.chk = map[string]bool{}
	switch len(rs) {
	case 0:
		return Val{}
	case 1:
		return rs[0]
	}
	return Val{Tup: rs}
}

// applyContract uses a callee's contract at a call site.
func (vc *VC) applyContract(fr *Frame, st *State, con *Contract, callee *ssa.Function, sig *types.Signature, cc *ssa.CallCommon,
	args []Val, argTypes []types.Type, resType types.Type, pos token.Pos) Val {
	con.Used = true
	key := con.Pkg + "::" + con.Func
	vc.usedContracts[key] = true
	if con.opt("trusted") {
		vc.trusted[key] = true
	}
	for _, e := range con.Ensures {
		if strings.HasSuffix(e.Label, "!assumed") {
			vc.trusted[key+" ["+e.Label+"] "+e.Src+" (clause assumed, not proved)"] = true
		}
	}
	names := map[string]SVal{}
	pnames := paramNames(callee, sig, cc)
	if con.Options["extern"] != "" {
		pnames = nil
		for i := range args {
			pnames = append(pnames, fmt.Sprintf("arg%d", i))
		}
	}
	for i, n := range pnames {
		if i < len(args) && n != "" && n != "_" {
			names[n] = vc.sval(args[i], argTypes[i])
		}
	}
	if vc.pendingThis != nil {
		names["this"] = vc.sval(*vc.pendingThis, vc.pendingThisType)
		vc.pendingThis = nil
	}
	var pkg *types.Package
	var spkg *ssa.Package
	if sp := vc.P.Pkgs[con.Pkg]; sp != nil {
		pkg, spkg = sp.Pkg, sp
	}
	pre := st.clone()
	env := &SpecEnv{vc: vc, st: st, old: pre, names: names, oldNames: names, pkg: pkg, ssaPkg: spkg}
	tag := con.Func
	for i, r := range con.Requires {
		t := vc.evalSpecBool(env, r)
		lbl := r.Label
		if lbl == "" {
			lbl = fmt.Sprint(i)
		}
		if strings.HasSuffix(lbl, "!init") {
			// a fact about package-level singletons established by the node's initialisation before any call:
			// assumed inside the function, not demanded from callers, reported as an assumption
			vc.trusted[key+" ["+lbl+"] "+r.Src+" (initialisation fact assumed, not checked at call sites)"] = true
			continue
		}
		vc.oblige(st, fr, "pre", tag+"."+lbl, t, r.Src, pos)
	}
	// frame: havoc what the callee may modify
	if !con.HasMod {
		// no modifies clause: pure w.r.t. the heap only if declared pure, otherwise everything may change
		if !con.opt("pure") {
			vc.havocAll(st)
		}
	} else {
		// every target names a place of the state at the call (not of the state after the targets before it
		// have been havocked: "modifies p.f, *p.f" means the old pointee)
		var tgts []*modTgt
		for _, m := range con.Modifies {
			tgts = append(tgts, vc.resolveTarget(env, m, con))
		}
		for _, t := range tgts {
			if t != nil {
				vc.applyHavoc(st, *t)
			}
		}
	}
	if !(con.HasMod == false && !con.opt("pure")) {
		// the callee may have allocated objects: the allocation counter may have grown (havocAll does this itself)
		nt := vc.declFresh("top", sortRef)
		vc.assume(st, mk(app("<=", st.top, nt), sortBool))
		st.top = nt
	}
	// results
	var resVals []Val
	res := sig.Results()
	rnames := resultNames(sig)
	for i := 0; i < res.Len(); i++ {
		v := vc.freshVal(st, "r!"+sanitize(con.Func)+"."+rnames[i], res.At(i).Type())
		resVals = append(resVals, v)
	}
	post := &SpecEnv{vc: vc, st: st, old: pre, names: map[string]SVal{}, oldNames: names, pkg: pkg, ssaPkg: spkg}
	for k, v := range names {
		post.names[k] = v
	}
	for i := range resVals {
		sv := vc.sval(resVals[i], res.At(i).Type())
		post.names[rnames[i]] = sv
		post.names[fmt.Sprintf("result%d", i)] = sv
		if res.Len() == 1 {
			post.names["result"] = sv
		}
	}
	post.pol = 1
	for _, e := range con.Ensures {
		if strings.HasSuffix(e.Label, "!onpanic") {
			continue // holds where the callee panics, says nothing about its normal return
		}
		t := vc.evalSpecBool(post, e)
		vc.assume(st, t)
	}
	st.chk = map[string]bool{}
	switch len(resVals) {
	case 0:
		return Val{}
	case 1:
		return resVals[0]
	}
	return Val{Tup: resVals}
}

func paramNames(callee *ssa.Function, sig *types.Signature, cc *ssa.CallCommon) []string {
	var ns []string
	if callee != nil {
		for _, p := range callee.Params {
			ns = append(ns, p.Name())
		}
		return ns
	}
	if cc != nil && cc.IsInvoke() {
		ns = append(ns, "this")
	}
	ps := sig.Params()
	for i := 0; i < ps.Len(); i++ {
		n := ps.At(i).Name()
		if n == "" {
			n = fmt.Sprintf("arg%d", i)
		}
		ns = append(ns, n)
	}
	return ns
}

func resultNames(sig *types.Signature) []string {
	var ns []string
	res := sig.Results()
	for i := 0; i < res.Len(); i++ {
		n := res.At(i).Name()
		if n == "" || n == "_" {
			n = fmt.Sprintf("result%d", i)
		}
		ns = append(ns, n)
	}
	return ns
}

// havocTarget makes one modifies target arbitrary in st.
//
//	p.f      field f of the struct p points to
//	*p       the whole object p points to
//	s[*]     all elements of the backing array of slice s
//	heap(T)  every object of type T (component), written heap(pkg.T)
func (vc *VC) resolveTarget(env *SpecEnv, m *SExpr, con *Contract) (res *modTgt) {
	defer func() {
		if r := recover(); r != nil {
			if se, ok := r.(specErr); ok {
				vc.errorf("%s:%d: modifies %s: %s", shortPath(con.File), con.Line, m, se.msg)
				res = nil
				return
			}
			panic(r)
		}
	}()
	tgt := vc.modTarget(env, m)
	return &tgt
}

func (vc *VC) applyHavoc(st *State, tgt modTgt) {
	switch tgt.kind {
	case "place":
		t := vc.declFresh("mod", vc.sortOf(tgt.place.Typ))
		vc.assumeWF(st, t, tgt.place.Typ)
		if tgt.place.Kind == BPtr && tgt.place.Ref.T != nil && tgt.place.Ref.S != "0" {
			// "*p" with p == nil names nothing: the slot at the nil reference keeps its value
			t = vc.define("mod", tIte(tEq(tgt.place.Ref, mk("0", sortRef)), vc.loadPlace(st, tgt.place), t))
		}
		vc.storePlace(st, tgt.place, t)
	case "arr":
		comp := vc.tgtArrComp(tgt)
		var na Term
		if tgt.comp != "" {
			na = vc.declFresh("modmap", vc.compSort[comp].Elem)
		} else {
			na = vc.declFresh("modarr", sortArray(vc.idxSort(), vc.sortOf(tgt.elem)))
		}
		h := vc.heapGet(st.heap, comp)
		vc.pendingRef = tgt.ref.S
		vc.heapSet(st, comp, vc.define(comp, tStore(h, tgt.ref, na)))
		vc.pendingRef = ""
	case "comp":
		vc.heapSet(st, tgt.comp, vc.declFresh(tgt.comp+"!mod", vc.compSort[tgt.comp]))
	}
}

type modTgt struct {
	kind  string
	place *Place
	ref   Term
	elem  types.Type
	comp  string
}

// tgtArrComp: the component of an "arr" target (one object of an array-like component: a slice's backing
// array, or - with comp set - one map object).
func (vc *VC) tgtArrComp(t modTgt) string {
	if t.comp != "" {
		return t.comp
	}
	return vc.arrComp(t.elem)
}

func (vc *VC) modTarget(env *SpecEnv, m *SExpr) modTgt {
	switch m.Op {
	case "un":
		if m.Name == "*" {
			v := env.eval(m.Args[0])
			if v.P == nil {
				env.fail("not a pointer")
			}
			return modTgt{kind: "place", place: v.P}
		}
	case "sel":
		base := env.eval(m.Args[0])
		if base.P == nil || base.GoT == nil || !isPointer(base.GoT) {
			// x.f.g: a field of a struct-typed field
			if m.Args[0].Op == "sel" {
				bt := vc.modTarget(env, m.Args[0])
				if bt.kind == "place" && bt.place != nil && bt.place.Typ != nil {
					if su, ok := bt.place.Typ.Underlying().(*types.Struct); ok {
						idx, ft := fieldIndex(su, m.Name)
						if idx < 0 {
							env.fail("no field %s", m.Name)
						}
						return modTgt{kind: "place", place: bt.place.extend(PathElem{Field: idx, Cont: bt.place.Typ}, ft)}
					}
				}
			}
			env.fail("modifies x.f needs a pointer x")
		}
		stT := derefType(base.GoT)
		su, ok := stT.Underlying().(*types.Struct)
		if !ok {
			env.fail("not a struct")
		}
		idx, ft := fieldIndex(su, m.Name)
		if idx < 0 {
			env.fail("no field %s", m.Name)
		}
		return modTgt{kind: "place", place: base.P.extend(PathElem{Field: idx, Cont: stT}, ft)}
	case "idx":
		if m.Args[1].Op == "id" && m.Args[1].Name == "_" {
			break
		}
	case "call":
		if m.Name == "elems" && len(m.Args) == 1 {
			v := env.eval(m.Args[0])
			sl, ok := v.GoT.Underlying().(*types.Slice)
			if !ok {
				env.fail("elems() of non-slice")
			}
			return modTgt{kind: "arr", ref: mk("(sl-ref "+v.T.S+")", sortRef), elem: sl.Elem()}
		}
		if m.Name == "entries" && len(m.Args) == 1 {
			// entries(m): the contents of the one map object m refers to
			v := env.eval(m.Args[0])
			mt, ok := v.GoT.Underlying().(*types.Map)
			if !ok {
				env.fail("entries() of non-map")
			}
			return modTgt{kind: "arr", ref: env.termOrLoad(v), comp: vc.mapInfoOf(mt).comp}
		}
		if m.Name == "heap" && len(m.Args) == 1 {
			tn := strings.Trim(m.Args[0].String(), "\"")
			for _, pfx := range []string{"M:", "GH:", "G:", "A:", "P:"} {
				if _, ok := vc.compSort[pfx+tn]; ok {
					return modTgt{kind: "comp", comp: pfx + tn}
				}
			}
			// not yet registered: resolve the type expression and register the component
			if t := vc.resolveTypeExpr(env, tn); t != nil {
				switch u := t.Underlying().(type) {
				case *types.Map:
					return modTgt{kind: "comp", comp: vc.mapInfoOf(u).comp}
				}
				return modTgt{kind: "comp", comp: vc.ptrComp(t)}
			}
			env.fail("unknown heap component %s", tn)
		}
		if m.Name == "ghost" && len(m.Args) == 1 {
			comp, ok := vc.ghostComp(m.Args[0].String())
			if !ok {
				env.fail("unknown ghost %s", m.Args[0].String())
			}
			return modTgt{kind: "comp", comp: comp}
		}
	case "id":
		// a global variable of the package
		if env.pkg != nil {
			if o := env.pkg.Scope().Lookup(m.Name); o != nil {
				if v, ok := o.(*types.Var); ok {
					sp := vc.P.SSA.Package(v.Pkg())
					if g, ok := sp.Members[v.Name()].(*ssa.Global); ok {
						return modTgt{kind: "place", place: vc.globalPlace(g).P}
					}
				}
			}
		}
	}
	env.fail("unsupported modifies target %s", m)
	return modTgt{}
}

func (vc *VC) lookupTypeByKey(env *SpecEnv, tn string) types.Type {
	pkgName, name := "", tn
	if i := strings.LastIndex(tn, "."); i >= 0 {
		pkgName, name = tn[:i], tn[i+1:]
	}
	if pkgName == "" && env.pkg != nil {
		if o := env.pkg.Scope().Lookup(name); o != nil {
			if t, ok := o.(*types.TypeName); ok {
				return t.Type()
			}
		}
	}
	for path, sp := range vc.P.Pkgs {
		if strings.HasSuffix(path, pkgName) || sp.Pkg.Name() == pkgName {
			if o := sp.Pkg.Scope().Lookup(name); o != nil {
				if t, ok := o.(*types.TypeName); ok {
					return t.Type()
				}
			}
		}
	}
	return nil
}

// ---------------------------------------------------------------- defer

func (vc *VC) deferCall(fr *Frame, st *State, d *ssa.Defer) {
	callee := d.Call.StaticCallee()
	full := ""
	if callee != nil {
		full = callee.String()
	} else if d.Call.IsInvoke() {
		full = "(" + typeKeyFull(d.Call.Value.Type()) + ")." + d.Call.Method.Name()
	}
	if strings.Contains(full, "sync.Mutex).Unlock") || strings.Contains(full, "sync.RWMutex).Unlock") || strings.Contains(full, "sync.RWMutex).RUnlock") ||
		strings.HasSuffix(full, ".Unlock") || strings.HasSuffix(full, ".RUnlock") || strings.Contains(full, "middleware.UnLock") || strings.Contains(full, "middleware.RUnLock") {
		vc.note("defer unlock dropped (sequential semantics)")
		return
	}
	if isEffectFree(full) {
		return
	}
	if fr.contract != nil && fr.contract.opt("ignoredefer") {
		vc.note("deferred call " + full + " ignored by contract option")
		return
	}
	if vc.loopNest > 0 {
		vc.errorf("%s: defer of %s inside a loop is outside the subset", funcKey(fr.fn), full)
		return
	}
	for _, r := range fr.defers {
		if r.instr == d {
			return
		}
	}
	fr.defers = append(fr.defers, deferRec{instr: d, guard: st.reach})
}

// runDefers executes the recorded deferred calls, last first, each under the condition that its defer statement
// was executed on the path taken (unconditionally when the statement dominates the return).
func (vc *VC) runDefers(fr *Frame, st *State, rd *ssa.RunDefers) {
	for i := len(fr.defers) - 1; i >= 0; i-- {
		d := fr.defers[i]
		if d.instr.Block().Dominates(rd.Block()) {
			vc.call(fr, st, d.instr, &d.instr.Call, nil)
			continue
		}
		a := st.clone()
		a.reach = vc.define("R!defer", tAnd(st.reach, d.guard))
		vc.call(fr, a, d.instr, &d.instr.Call, nil)
		b := st.clone()
		b.reach = vc.define("R!nodefer", tAnd(st.reach, tNot(d.guard)))
		conds := []Term{a.reach, b.reach}
		sts := []*State{a, b}
		st.heap = vc.mergeHeaps(fr, nil, conds, func(i int) *Heap { return sts[i].heap }, 2)
		st.top = vc.define("top!d", tIte(a.reach, a.top, b.top))
	}
}

// ---------------------------------------------------------------- builtins

func (vc *VC) builtin(fr *Frame, st *State, b *ssa.Builtin, cc *ssa.CallCommon, res ssa.Value, pos token.Pos) Val {
	var args []Val
	for _, a := range cc.Args {
		args = append(args, vc.operand(fr, st, a))
	}
	is := vc.idxSort()
	switch b.Name() {
	case "len", "cap":
		t := cc.Args[0].Type()
		x := args[0]
		switch u := t.Underlying().(type) {
		case *types.Slice:
			acc := "sl-len"
			if b.Name() == "cap" {
				acc = "sl-cap"
			}
			return Val{T: mk("("+acc+" "+x.T.S+")", is)}
		case *types.Basic:
			return Val{T: mk("(str-len "+x.T.S+")", is)}
		case *types.Array:
			return Val{T: vc.idxLit(u.Len())}
		case *types.Pointer:
			if a, ok := u.Elem().Underlying().(*types.Array); ok {
				return Val{T: vc.idxLit(a.Len())}
			}
		case *types.Map:
			mv := vc.mapValue(st, x.T, u)
			return Val{T: vc.mapAcc(u, "card", mv)}
		}
		vc.note("len/cap of " + typeKey(t) + " abstracted")
		return vc.freshVal(st, "len", types.Typ[types.Int])
	case "append":
		return vc.appendOp(fr, st, cc, args, pos)
	case "copy":
		return vc.copyOp(fr, st, cc, args, pos)
	case "delete":
		vc.mapDelete(fr, st, cc, args)
		return Val{}
	case "panic":
		vc.oblige(st, fr, "safe.panic", "", tFalse, "explicit panic is unreachable", pos)
		return Val{}
	case "print", "println":
		return Val{}
	case "min", "max":
		if len(args) == 2 {
			t := cc.Args[0].Type()
			op := token.LSS
			if b.Name() == "max" {
				op = token.GTR
			}
			c := vc.binop(fr, st, op, args[0], args[1], t, t, types.Typ[types.Bool], pos)
			return Val{T: tIte(c, args[0].T, args[1].T)}
		}
	}
	vc.errorf("unsupported builtin %s", b.Name())
	if res != nil {
		return vc.freshVal(st, "builtin", res.Type())
	}
	return Val{}
}

func (vc *VC) appendOp(fr *Frame, st *State, cc *ssa.CallCommon, args []Val, pos token.Pos) Val {
	sl := cc.Args[0].Type().Underlying().(*types.Slice)
	et := sl.Elem()
	is := vc.idxSort()
	s := args[0].T
	var tArr, tOff, tLen Term
	if isString(cc.Args[1].Type()) {
		// append([]byte, string...)
		str := args[1].T
		tLen = mk("(str-len "+str.S+")", is)
		arrS := sortArray(is, vc.intSort(8))
		na := vc.declFresh("strbytes", arrS)
		q := fmt.Sprintf("(forall ((i %s)) (! (=> %s (= (select %s i) (str-at %s i))) :pattern ((select %s i))))", is.Name, vc.inRange("i", tLen.S), na.S, str.S, na.S)
		vc.assume(st, mk(q, sortBool))
		tArr, tOff = na, vc.idxLit(0)
	} else {
		t := args[1].T
		tArr = tSelect(vc.heapGet(st.heap, vc.arrComp(et)), mk("(sl-ref "+t.S+")", sortRef))
		tOff = mk("(sl-off "+t.S+")", is)
		tLen = mk("(sl-len "+t.S+")", is)
		// literal length known from the construction (variadic packs)?
		if v, ok := vc.litLenOf(t); ok {
			tLen = vc.idxLit(v)
		}
	}
	comp := vc.arrComp(et)
	sRef := mk("(sl-ref "+s.S+")", sortRef)
	sOff := mk("(sl-off "+s.S+")", is)
	sLen := mk("(sl-len "+s.S+")", is)
	sCap := mk("(sl-cap "+s.S+")", is)
	newLen := vc.define("app!len", vc.idxAdd(sLen, tLen))
	// length overflow cannot happen for real slices: lengths are < 2^62 by wf-slice
	fits := vc.define("app!fits", vc.idxLe(newLen, sCap))
	h := vc.heapGet(st.heap, comp)
	srcArr := vc.define("app!src", tSelect(h, sRef))
	// in-place result array
	var inPlace, fresh Term
	arrS := sortArray(is, vc.sortOf(et))
	if k, ok := litValue(tLen); ok && k <= 8 {
		inPlace = srcArr
		fresh = vc.declFresh("app!new", arrS)
		// fresh array: copy of old elements (quantified) then the new ones
		q := fmt.Sprintf("(forall ((i %s)) (! (=> %s (= (select %s i) (select %s %s))) :pattern ((select %s i))))", is.Name, vc.inRange("i", sLen.S), fresh.S, srcArr.S, vc.idxAdd(sOff, mk("i", is)).S, fresh.S)
		vc.assume(st, mk(q, sortBool))
		for i := int64(0); i < k; i++ {
			ev := tSelect(tArr, vc.idxAdd(tOff, vc.idxLit(i)))
			inPlace = tStore(inPlace, vc.idxAdd(vc.idxAdd(sOff, sLen), vc.idxLit(i)), ev)
			vc.assume(st, tEq(tSelect(fresh, vc.idxAdd(sLen, vc.idxLit(i))), ev))
		}
	} else {
		inPlace = vc.declFresh("app!inpl", arrS)
		fresh = vc.declFresh("app!new", arrS)
		base := vc.idxAdd(sOff, sLen)
		// in place: positions [off+len, off+len+tLen) get the new elements, everything else unchanged
		q1 := fmt.Sprintf("(forall ((i %s)) (! (= (select %s i) (ite (and %s %s) (select %s %s) (select %s i))) :pattern ((select %s i))))",
			is.Name, inPlace.S, vc.idxLe(base, mk("i", is)).S, vc.idxLt(mk("i", is), vc.idxAdd(base, tLen)).S,
			tArr.S, vc.idxAdd(tOff, vc.idxSub(mk("i", is), base)).S, srcArr.S, inPlace.S)
		q2 := fmt.Sprintf("(forall ((i %s)) (! (=> %s (= (select %s i) (ite %s (select %s %s) (select %s %s)))) :pattern ((select %s i))))",
			is.Name, vc.inRange("i", newLen.S), fresh.S, vc.idxLt(mk("i", is), sLen).S,
			srcArr.S, vc.idxAdd(sOff, mk("i", is)).S, tArr.S, vc.idxAdd(tOff, vc.idxSub(mk("i", is), sLen)).S, fresh.S)
		vc.assume(st, mk(q1, sortBool))
		vc.assume(st, mk(q2, sortBool))
		// ground instances for the first few appended elements (headers are short): saves the solver the
		// arithmetic matching of i against base+k
		for k := int64(0); k < 9; k++ {
			kt := vc.idxLit(k)
			ev := tSelect(tArr, vc.idxAdd(tOff, kt))
			g := vc.idxLt(kt, tLen)
			vc.assume(st, tImp(g, tEq(tSelect(fresh, vc.idxAdd(sLen, kt)), ev)))
			vc.assume(st, tImp(g, tEq(tSelect(inPlace, vc.idxAdd(base, kt)), ev)))
		}
	}
	newRef := st.top
	st.top = vc.define("top", mk(fmt.Sprintf("(+ %s 1)", newRef.S), sortRef))
	newCap := vc.declFresh("app!cap", is)
	vc.assume(st, vc.idxLe(newLen, newCap))
	if vc.mode == ModeBV {
		vc.assume(st, mk(fmt.Sprintf("(bvult %s #x4000000000000000)", newCap.S), sortBool))
	}
	h2 := tStore(h, newRef, fresh)
	h1 := tStore(h, sRef, inPlace)
	vc.loopWriteCheck(st, comp, sRef.S, fits)
	vc.pendingRef = newRef.S
	vc.heapSet(st, comp, vc.define(comp, tIte(fits, h1, h2)))
	vc.pendingRef = ""
	vc.noteWriteRef(comp, sRef.S)
	r := tIte(fits, vc.mkSlice(sRef, sOff, newLen, sCap), vc.mkSlice(newRef, vc.idxLit(0), newLen, newCap))
	return Val{T: vc.define("app!res", r)}
}

// litLenOf recognises slices built as (mk-slice ref off LIT cap) through definitions.
func (vc *VC) litLenOf(t Term) (int64, bool) {
	s := t.S
	if d, ok := vc.defs[s]; ok {
		s = d
	}
	if strings.HasPrefix(s, "(mk-slice ") {
		parts := splitSexp(s[1 : len(s)-1])
		if len(parts) == 5 {
			return litValue(mk(parts[3], nil))
		}
	}
	return 0, false
}

func splitSexp(s string) []string {
	var out []string
	depth := 0
	start := -1
	inBar := false
	for i, c := range s {
		switch {
		case c == '|':
			inBar = !inBar
			if start < 0 {
				start = i
			}
		case inBar:
		case c == '(':
			if depth == 0 && start < 0 {
				start = i
			}
			depth++
		case c == ')':
			depth--
			if depth == 0 {
				out = append(out, s[start:i+1])
				start = -1
			}
		case c == ' ' || c == '\n' || c == '\t':
			if depth == 0 && start >= 0 {
				out = append(out, s[start:i])
				start = -1
			}
		default:
			if start < 0 {
				start = i
			}
		}
	}
	if start >= 0 {
		out = append(out, s[start:])
	}
	return out
}

func (vc *VC) copyOp(fr *Frame, st *State, cc *ssa.CallCommon, args []Val, pos token.Pos) Val {
	dstT := cc.Args[0].Type().Underlying().(*types.Slice)
	et := dstT.Elem()
	is := vc.idxSort()
	d := args[0].T
	dRef, dOff, dLen := mk("(sl-ref "+d.S+")", sortRef), mk("(sl-off "+d.S+")", is), mk("(sl-len "+d.S+")", is)
	comp := vc.arrComp(et)
	h := vc.heapGet(st.heap, comp)
	var sArr, sOff, sLen Term
	if isString(cc.Args[1].Type()) {
		str := args[1].T
		sLen = mk("(str-len "+str.S+")", is)
		arrS := sortArray(is, vc.intSort(8))
		na := vc.declFresh("strbytes", arrS)
		q := fmt.Sprintf("(forall ((i %s)) (! (=> %s (= (select %s i) (str-at %s i))) :pattern ((select %s i))))", is.Name, vc.inRange("i", sLen.S), na.S, str.S, na.S)
		vc.assume(st, mk(q, sortBool))
		sArr, sOff = na, vc.idxLit(0)
	} else {
		s := args[1].T
		sArr = tSelect(h, mk("(sl-ref "+s.S+")", sortRef))
		sOff, sLen = mk("(sl-off "+s.S+")", is), mk("(sl-len "+s.S+")", is)
	}
	n := vc.define("copy!n", tIte(vc.idxLe(dLen, sLen), dLen, sLen))
	srcArr := vc.define("copy!src", sArr)
	dstArr := vc.define("copy!dst", tSelect(h, dRef))
	na := vc.declFresh("copy!res", sortArray(is, vc.sortOf(et)))
	iv := mk("i", is)
	q := fmt.Sprintf("(forall ((i %s)) (! (= (select %s i) (ite (and %s %s) (select %s %s) (select %s i))) :pattern ((select %s i))))",
		is.Name, na.S, vc.idxLe(dOff, iv).S, vc.idxLt(iv, vc.idxAdd(dOff, n)).S,
		srcArr.S, vc.idxAdd(sOff, vc.idxSub(iv, dOff)).S, dstArr.S, na.S)
	vc.assume(st, mk(q, sortBool))
	if b, ok := et.Underlying().(*types.Basic); ok && (b.Kind() == types.Uint8 || b.Kind() == types.Byte) && vc.mode == ModeMath && !isString(cc.Args[1].Type()) &&
		vc.top != nil && vc.top.contract != nil && vc.top.contract.opt("padlemma") {
		// Padding lemma (an instance of "leading zero bytes do not change the big-endian value"): a window of
		// the destination that starts with zeros and ends exactly where the copied bytes end denotes the same
		// number as the source. Sound for every window; the solver picks the window through the pattern. Opt-in
		// (option padlemma): the quantified instances slow byte-copying functions that do not need them.
		vc.needBytes, vc.needBeval, vc.needPadLemma = true, true, true
		// a window that does not overlap the copied range reads the same byte string before and after the copy
		dis := fmt.Sprintf("(forall ((|q!o| %s) (|q!l| %s)) (! (=> (or (<= (+ |q!o| |q!l|) %s) (>= |q!o| (+ %s %s))) (= (bytes-of %s |q!o| |q!l|) (bytes-of %s |q!o| |q!l|))) :pattern ((bytes-of %s |q!o| |q!l|))))",
			is.Name, is.Name, dOff.S, dOff.S, n.S, na.S, dstArr.S, na.S)
		vc.assume(st, mk(dis, sortBool))
		src := vc.bytesOf(srcArr, sOff, n)
		lem := fmt.Sprintf("(forall ((|q!o| %s) (|q!l| %s)) (! (=> (and (<= |q!o| %s) (= |q!l| (+ (- %s |q!o|) %s)) (forall ((|q!z| %s)) (=> (and (<= |q!o| |q!z|) (< |q!z| %s)) (= (select %s |q!z|) 0)))) (= (beval (bytes-of %s |q!o| |q!l|)) (beval %s))) :pattern ((bytes-of %s |q!o| |q!l|))))",
			is.Name, is.Name, dOff.S, dOff.S, n.S, is.Name, dOff.S, na.S, na.S, src.S, na.S)
		vc.assume(st, mk(lem, sortBool))
	}
	vc.pendingRef = dRef.S
	vc.heapSet(st, comp, vc.define(comp, tStore(h, dRef, na)))
	vc.pendingRef = ""
	return Val{T: n}
}

func (vc *VC) flagConst(name string) Term {
	n := smtIdent("flag!" + name)
	if !vc.uf[n] {
		vc.uf[n] = true
		vc.constDecls = append(vc.constDecls, fmt.Sprintf("(declare-const %s Bool)", n))
		vc.flagsUsed = append(vc.flagsUsed, name)
	}
	return mk(n, sortBool)
}

// resolveTypeExpr resolves a small type expression (map[K]V, []T, *T, pkg.Name, Name, basic) in the
// context of the specification's package.
func (vc *VC) resolveTypeExpr(env *SpecEnv, s string) types.Type {
	s = strings.TrimSpace(s)
	switch {
	case strings.HasPrefix(s, "map["):
		depth := 0
		for i := 3; i < len(s); i++ {
			if s[i] == '[' {
				depth++
			} else if s[i] == ']' {
				depth--
				if depth == 0 {
					k := vc.resolveTypeExpr(env, s[4:i])
					v := vc.resolveTypeExpr(env, s[i+1:])
					if k == nil || v == nil {
						return nil
					}
					return types.NewMap(k, v)
				}
			}
		}
		return nil
	case strings.HasPrefix(s, "[]"):
		if e := vc.resolveTypeExpr(env, s[2:]); e != nil {
			return types.NewSlice(e)
		}
		return nil
	case strings.HasPrefix(s, "*"):
		if e := vc.resolveTypeExpr(env, s[1:]); e != nil {
			return types.NewPointer(e)
		}
		return nil
	case s == "struct{}":
		return types.NewStruct(nil, nil)
	}
	if b := basicByName(s); b != nil {
		return b
	}
	return vc.lookupTypeByKey(env, s)
}

// declTimeDec declares the uninterpreted decoding function of time.Time values (after the sort of time.Time).
func (vc *VC) declTimeDec(ts *Sort) {
	if vc.timeSort != nil {
		return
	}
	vc.timeSort = ts
	vc.sortDecls = append(vc.sortDecls, fmt.Sprintf("(declare-fun timedec (Bytes) %s)", ts.Name))
}
