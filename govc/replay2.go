package main

import (
	"encoding/json"
	"fmt"
	"go/types"
	"math/big"
	"os"
	"sort"
	"strings"

	"golang.org/x/tools/go/ssa"
)

// CV is a concrete value tree: what a symbolic input looks like in the solver's model, and what the
// real code produced when the replay test dumped the same object graph.
type CV struct {
	Kind   string   `json:"k"` // int bool string u256 slice ptr struct nil error big unsupported
	Int    string   `json:"i,omitempty"`
	Bool   bool     `json:"b,omitempty"`
	Str    string   `json:"s,omitempty"`
	Elems  []*CV    `json:"e,omitempty"`
	Fields []*CV    `json:"f,omitempty"` // struct fields in declaration order
	Ptr    *CV      `json:"p,omitempty"`
	ErrIs  []string `json:"is,omitempty"`
}

const maxReplayDepth = 4
const maxReplayElems = 2048

type extractor struct {
	vc      *VC
	ob      *Obligation
	script  string
	timeout int
	heap    *Heap
	fix     []string
	err     error
	raw     string
}

func (x *extractor) values(terms []string) map[string]string {
	if x.err != nil || len(terms) == 0 {
		return map[string]string{}
	}
	// heap components first touched by the extraction are declared here
	var extra []string
	for _, d := range x.vc.sortDecls {
		if !strings.Contains(x.script, d) {
			extra = append(extra, d)
		}
	}
	for _, d := range x.vc.constDecls {
		if !strings.Contains(x.script, d) {
			extra = append(extra, d)
		}
	}
	s2 := strings.Replace(x.script, "(check-sat)\n", strings.Join(extra, "\n")+"\n"+strings.Join(x.fix, "\n")+"\n(check-sat)\n", 1)
	vals, raw := getValues(s2, x.ob.Solver, terms, x.timeout)
	x.raw = raw
	if vals == nil {
		x.err = fmt.Errorf("solver gave no values")
		return map[string]string{}
	}
	for _, t := range terms {
		// keep later rounds consistent with what we already read
		if v, ok := vals[t]; ok && len(x.fix) < 4000 {
			x.fix = append(x.fix, fmt.Sprintf("(assert (= %s %s))", t, v))
		}
	}
	return vals
}

// extract reads the value denoted by SMT term t of Go type typ from the model.
func (x *extractor) extract(t Term, typ types.Type, depth int) *CV {
	vc := x.vc
	if x.err != nil {
		return &CV{Kind: "unsupported"}
	}
	if depth > maxReplayDepth {
		return &CV{Kind: "unsupported"}
	}
	if isU256(typ) {
		if vc.mode == ModeMath {
			x.fix = append(x.fix, fmt.Sprintf("(assert (and (<= 0 %s) (< %s %s)))", t.S, t.S, pow2(256)))
		}
		v := x.values([]string{t.S})[t.S]
		n, _, ok := parseNum(v)
		if !ok {
			x.err = fmt.Errorf("cannot parse %q", v)
			return &CV{Kind: "unsupported"}
		}
		return &CV{Kind: "u256", Int: n.String()}
	}
	if isBigRat(typ) || isBigFloat(typ) || (isFloat(typ) && vc.mode == ModeMath) {
		v := x.values([]string{t.S})[t.S]
		if r, ok := parseReal(v); ok {
			return &CV{Kind: "rat", Int: r.Num().String(), Str: r.Denom().String()}
		}
		x.err = fmt.Errorf("cannot parse real %q", v)
		return &CV{Kind: "unsupported"}
	}
	if isBigInt(typ) {
		v := x.values([]string{t.S})[t.S]
		n, _, ok := parseNum(v)
		if !ok {
			return &CV{Kind: "unsupported"}
		}
		return &CV{Kind: "big", Int: n.String()}
	}
	switch u := typ.Underlying().(type) {
	case *types.Basic:
		switch {
		case isBool(typ):
			return &CV{Kind: "bool", Bool: x.values([]string{t.S})[t.S] == "true"}
		case isString(typ):
			lv, _, ok := parseNum(x.values([]string{"(str-len " + t.S + ")"})["(str-len "+t.S+")"])
			if !ok || lv.Cmp(big.NewInt(maxReplayElems)) > 0 {
				x.err = fmt.Errorf("model string too long to replay")
				return &CV{Kind: "unsupported"}
			}
			var terms []string
			for i := int64(0); i < lv.Int64(); i++ {
				terms = append(terms, fmt.Sprintf("(str-at %s %s)", t.S, vc.idxLit(i).S))
			}
			vals := x.values(terms)
			var sb []byte
			for _, tt := range terms {
				b, _, ok := parseNum(vals[tt])
				if !ok {
					b = big.NewInt('a')
				}
				sb = append(sb, byte(b.Int64()))
			}
			return &CV{Kind: "string", Str: string(sb)}
		}
		if bits, signed, ok := intInfo(typ); ok {
			if vc.mode == ModeMath {
				lo, hi := intRange(bits, signed)
				x.fix = append(x.fix, fmt.Sprintf("(assert (and (<= %s %s) (<= %s %s)))", lo.S, t.S, t.S, hi.S))
			}
			v := x.values([]string{t.S})[t.S]
			n, mb, ok2 := parseNum(v)
			if !ok2 {
				x.err = fmt.Errorf("cannot parse %q", v)
				return &CV{Kind: "unsupported"}
			}
			if signed && mb > 0 {
				n = signedVal(n, bits)
			}
			return &CV{Kind: "int", Int: n.String()}
		}
	case *types.Slice:
		lt, rt := "(sl-len "+t.S+")", "(sl-ref "+t.S+")"
		x.fix = append(x.fix, "(assert (wf-slice "+t.S+"))")
		vals := x.values([]string{lt, rt})
		lv, _, ok := parseNum(vals[lt])
		rv, _, _ := parseNum(vals[rt])
		if !ok {
			x.err = fmt.Errorf("cannot parse slice length")
			return &CV{Kind: "unsupported"}
		}
		if rv != nil && rv.Sign() == 0 && lv.Sign() == 0 {
			return &CV{Kind: "nil"}
		}
		if lv.Cmp(big.NewInt(maxReplayElems)) > 0 {
			x.err = fmt.Errorf("model slice length %s too large to replay", lv)
			return &CV{Kind: "unsupported"}
		}
		cv := &CV{Kind: "slice", Elems: []*CV{}}
		arr := tSelect(vc.heapGet(x.heap, vc.arrComp(u.Elem())), mk(rt, sortRef))
		for i := int64(0); i < lv.Int64(); i++ {
			et := tSelect(arr, vc.idxAdd(mk("(sl-off "+t.S+")", vc.idxSort()), vc.idxLit(i)))
			et.T = vc.sortOf(u.Elem())
			cv.Elems = append(cv.Elems, x.extract(et, u.Elem(), depth+1))
		}
		return cv
	case *types.Pointer:
		v := x.values([]string{t.S})[t.S]
		n, _, ok := parseNum(v)
		if !ok || n.Sign() == 0 {
			return &CV{Kind: "nil"}
		}
		el := u.Elem()
		if _, isArr := el.Underlying().(*types.Array); isArr && !isU256(el) {
			return &CV{Kind: "unsupported"}
		}
		if _, isIface := el.Underlying().(*types.Interface); isIface {
			return &CV{Kind: "unsupported"}
		}
		obj := tSelect(vc.heapGet(x.heap, vc.ptrComp(el)), t)
		obj.T = vc.sortOf(el)
		return &CV{Kind: "ptr", Ptr: x.extract(obj, el, depth+1)}
	case *types.Struct:
		si := vc.structInfoOf(typ, u)
		cv := &CV{Kind: "struct"}
		for i, f := range si.fields {
			ft := si.ftypes[i]
			fterm := mk("("+f+" "+t.S+")", vc.sortOf(ft))
			cv.Fields = append(cv.Fields, x.extract(fterm, ft, depth+1))
		}
		return cv
	case *types.Array:
		if u.Len() <= 64 {
			cv := &CV{Kind: "slice", Elems: []*CV{}}
			for i := int64(0); i < u.Len(); i++ {
				et := tSelect(t, vc.idxLit(i))
				et.T = vc.sortOf(u.Elem())
				cv.Elems = append(cv.Elems, x.extract(et, u.Elem(), depth+1))
			}
			return cv
		}
	}
	return &CV{Kind: "unsupported"}
}

// ---------------------------------------------------------------- Go source for values and dumpers

type testGen struct {
	pkg     *types.Package
	imports map[string]string // path -> name
	b       strings.Builder
	nvar    int
}

func (g *testGen) typeStr(t types.Type) string {
	return types.TypeString(t, func(p *types.Package) string {
		if p == g.pkg {
			return ""
		}
		g.imports[p.Path()] = p.Name()
		return p.Name()
	})
}

// lit returns a Go expression building cv as a value of type typ; ok=false if some part is unsupported
// (then the zero value is used for that part).
func (g *testGen) lit(cv *CV, typ types.Type) string {
	if cv == nil {
		return g.zero(typ)
	}
	if isU256(typ) {
		if cv.Kind != "u256" {
			return g.zero(typ)
		}
		n, _ := new(big.Int).SetString(cv.Int, 10)
		if n == nil {
			return g.zero(typ)
		}
		mask := new(big.Int).SetUint64(^uint64(0))
		var limbs []string
		for i := 0; i < 4; i++ {
			limbs = append(limbs, new(big.Int).And(new(big.Int).Rsh(n, uint(64*i)), mask).String())
		}
		return g.typeStr(typ) + "{" + strings.Join(limbs, ", ") + "}"
	}
	if cv.Kind == "rat" && isBigRat(typ) {
		g.imports["math/big"] = "big"
		return fmt.Sprintf("func() big.Rat { n, _ := new(big.Int).SetString(%q, 10); d, _ := new(big.Int).SetString(%q, 10); return *new(big.Rat).SetFrac(n, d) }()", cv.Int, cv.Str)
	}
	if cv.Kind == "big" && isBigInt(typ) {
		g.imports["math/big"] = "big"
		return fmt.Sprintf("func() big.Int { n, _ := new(big.Int).SetString(%q, 10); return *n }()", cv.Int)
	}
	switch u := typ.Underlying().(type) {
	case *types.Basic:
		switch cv.Kind {
		case "rat":
			g.imports["math/big"] = "big"
			return fmt.Sprintf("func() %s { n, _ := new(big.Int).SetString(%q, 10); d, _ := new(big.Int).SetString(%q, 10); f, _ := new(big.Rat).SetFrac(n, d).Float64(); return %s(f) }()", g.typeStr(typ), cv.Int, cv.Str, g.typeStr(typ))
		case "bool":
			return fmt.Sprintf("%s(%v)", g.typeStr(typ), cv.Bool)
		case "string":
			return fmt.Sprintf("%s(%q)", g.typeStr(typ), cv.Str)
		case "int":
			return fmt.Sprintf("%s(%s)", g.typeStr(typ), cv.Int)
		}
	case *types.Slice:
		if cv.Kind == "nil" {
			return "(" + g.typeStr(typ) + ")(nil)"
		}
		if cv.Kind == "slice" {
			var es []string
			for _, e := range cv.Elems {
				es = append(es, g.lit(e, u.Elem()))
			}
			return g.typeStr(typ) + "{" + strings.Join(es, ", ") + "}"
		}
	case *types.Array:
		if cv.Kind == "slice" {
			var es []string
			for _, e := range cv.Elems {
				es = append(es, g.lit(e, u.Elem()))
			}
			return g.typeStr(typ) + "{" + strings.Join(es, ", ") + "}"
		}
	case *types.Pointer:
		if cv.Kind == "ptr" {
			el := u.Elem()
			if _, isStruct := el.Underlying().(*types.Struct); isStruct && !isU256(el) && !isBigInt(el) && !isBigRat(el) {
				return "&" + g.lit(cv.Ptr, el)
			}
			g.nvar++
			// pointer to non-struct: use a helper closure
			return fmt.Sprintf("func() %s { v := %s; return &v }()", g.typeStr(typ), g.lit(cv.Ptr, el))
		}
		return "(" + g.typeStr(typ) + ")(nil)"
	case *types.Struct:
		if cv.Kind == "struct" {
			var fs []string
			for i := 0; i < u.NumFields() && i < len(cv.Fields); i++ {
				f := u.Field(i)
				if f.Pkg() != nil && f.Pkg() != g.pkg && !f.Exported() {
					continue
				}
				if cv.Fields[i].Kind == "unsupported" {
					continue
				}
				if hasLock(f.Type()) {
					continue
				}
				fs = append(fs, f.Name()+": "+g.lit(cv.Fields[i], f.Type()))
			}
			return g.typeStr(typ) + "{" + strings.Join(fs, ", ") + "}"
		}
	}
	return g.zero(typ)
}

func hasLock(t types.Type) bool {
	s := types.TypeString(t, nil)
	return strings.Contains(s, "sync.") || strings.Contains(s, "atomic.")
}

func (g *testGen) zero(typ types.Type) string {
	switch typ.Underlying().(type) {
	case *types.Pointer, *types.Slice, *types.Map, *types.Chan, *types.Interface, *types.Signature:
		return "(" + g.typeStr(typ) + ")(nil)"
	case *types.Struct, *types.Array:
		return g.typeStr(typ) + "{}"
	}
	if isBool(typ) {
		return g.typeStr(typ) + "(false)"
	}
	if isString(typ) {
		return g.typeStr(typ) + `("")`
	}
	return g.typeStr(typ) + "(0)"
}

// dump emits Go code that appends a CV-shaped dump of expression e (of type typ) to variable dst.
func (g *testGen) dump(e string, typ types.Type, depth int) string {
	if depth > maxReplayDepth {
		return `vfCV{"k": "unsupported"}`
	}
	if isBigRat(typ) {
		return fmt.Sprintf(`func() vfCV { x := %s; return vfCV{"k": "rat", "i": x.Num().String(), "s": x.Denom().String()} }()`, e)
	}
	if isBigInt(typ) {
		return fmt.Sprintf(`func() vfCV { x := %s; return vfCV{"k": "big", "i": x.String()} }()`, e)
	}
	if isU256(typ) {
		g.imports["math/big"] = "big"
		return fmt.Sprintf(`func() vfCV { x := %s; n := new(big.Int); for i := 3; i >= 0; i-- { n.Lsh(n, 64); n.Or(n, new(big.Int).SetUint64(x[i])) }; return vfCV{"k": "u256", "i": n.String()} }()`, e)
	}
	switch u := typ.Underlying().(type) {
	case *types.Basic:
		switch {
		case isBool(typ):
			return fmt.Sprintf(`vfCV{"k": "bool", "b": bool(%s)}`, e)
		case isString(typ):
			return fmt.Sprintf(`vfCV{"k": "string", "s": string(%s)}`, e)
		}
		if _, signed, ok := intInfo(typ); ok {
			if signed {
				return fmt.Sprintf(`vfCV{"k": "int", "i": fmt.Sprint(int64(%s))}`, e)
			}
			return fmt.Sprintf(`vfCV{"k": "int", "i": fmt.Sprint(uint64(%s))}`, e)
		}
	case *types.Slice:
		g.nvar++
		v := fmt.Sprintf("s%d", g.nvar)
		return fmt.Sprintf(`func() vfCV { %s := %s; if %s == nil { return vfCV{"k": "nil"} }; es := []vfCV{}; for i := range %s { if i >= %d { break }; es = append(es, %s) }; return vfCV{"k": "slice", "e": es} }()`,
			v, e, v, v, maxReplayElems, g.dump(v+"[i]", u.Elem(), depth+1))
	case *types.Array:
		if u.Len() <= 64 {
			g.nvar++
			v := fmt.Sprintf("a%d", g.nvar)
			return fmt.Sprintf(`func() vfCV { %s := %s; es := []vfCV{}; for i := range %s { _ = i; es = append(es, %s) }; return vfCV{"k": "slice", "e": es} }()`,
				v, e, v, g.dump(v+"[i]", u.Elem(), depth+1))
		}
	case *types.Pointer:
		el := u.Elem()
		if _, isArr := el.Underlying().(*types.Array); isArr && !isU256(el) {
			break
		}
		if _, isIface := el.Underlying().(*types.Interface); isIface {
			break
		}
		g.nvar++
		v := fmt.Sprintf("p%d", g.nvar)
		return fmt.Sprintf(`func() vfCV { %s := %s; if %s == nil { return vfCV{"k": "nil"} }; return vfCV{"k": "ptr", "p": %s} }()`, v, e, v, g.dump("(*"+v+")", el, depth+1))
	case *types.Struct:
		if isBigInt(typ) {
			break
		}
		g.nvar++
		v := fmt.Sprintf("t%d", g.nvar)
		var fs []string
		for i := 0; i < u.NumFields(); i++ {
			f := u.Field(i)
			if (f.Pkg() != nil && f.Pkg() != g.pkg && !f.Exported()) || hasLock(f.Type()) {
				fs = append(fs, `vfCV{"k": "unsupported"}`)
				continue
			}
			fs = append(fs, g.dump(v+"."+f.Name(), f.Type(), depth+1))
		}
		return fmt.Sprintf(`func() vfCV { %s := &%s; _ = %s; return vfCV{"k": "struct", "f": []vfCV{%s}} }()`, v, e, v, strings.Join(fs, ", "))
	case *types.Interface:
		if types.Identical(typ, types.Universe.Lookup("error").Type()) {
			return fmt.Sprintf(`vfErr(%s)`, e)
		}
	}
	return `vfCV{"k": "unsupported"}`
}

// genTestS2 builds an in-package test that constructs the inputs, calls the function (method, closure or
// plain function), and dumps results and the post-state of all pointer inputs.
func (vc *VC) genTestS2(fn *ssa.Function, inputs []*CV, freeVars []*CV) (string, error) {
	pkg := vc.pkg
	if pkg == nil {
		return "", fmt.Errorf("no package")
	}
	g := &testGen{pkg: pkg.Pkg, imports: map[string]string{"fmt": "fmt", "testing": "testing", "encoding/json": "json", "os": "os"}}
	sents := vc.sentinelRefs(fn)
	for _, s := range sents {
		if s.pkgPath != fnPkgPath(fn) {
			g.imports[s.pkgPath] = s.pkgName
		}
	}
	var body strings.Builder
	body.WriteString("\tif d := os.Getenv(\"VERIF_SCRATCH\"); d != \"\" {\n\t\tos.Chdir(d)\n\t}\n")
	body.WriteString(vc.replayPreamble(g))
	for _, gi := range vc.globalInits {
		lhs := gi.name
		if gi.pkg != g.pkg {
			g.imports[gi.pkg.Path()] = gi.pkg.Name()
			lhs = gi.pkg.Name() + "." + gi.name
		}
		fmt.Fprintf(&body, "\t%s = %s\n", lhs, g.lit(gi.cv, gi.typ))
	}
	body.WriteString("\tdefer func() {\n\t\tif r := recover(); r != nil {\n\t\t\tfmt.Printf(\"VERIF-PANIC: %v\\n\", r)\n\t\t}\n\t}()\n")
	var args []string
	for i, p := range fn.Params {
		fmt.Fprintf(&body, "\ta%d := %s\n\t_ = a%d\n", i, g.lit(inputs[i], p.Type()), i)
		args = append(args, fmt.Sprintf("a%d", i))
	}
	var call string
	switch {
	case fn.Parent() != nil:
		par := fn.Parent()
		if par.Signature.Recv() != nil || par.Parent() != nil || len(fn.FreeVars) != len(par.Params) {
			return "", fmt.Errorf("closure shape outside replay template S2")
		}
		var pas []string
		for i, fv := range fn.FreeVars {
			t := derefType(fv.Type())
			pas = append(pas, g.lit(freeVars[i], t))
			_ = fv
		}
		call = fmt.Sprintf("%s(%s)(%s)", par.Name(), strings.Join(pas, ", "), strings.Join(args, ", "))
	case fn.Signature.Recv() != nil:
		call = fmt.Sprintf("%s.%s(%s)", args[0], fn.Name(), strings.Join(args[1:], ", "))
	default:
		call = fmt.Sprintf("%s(%s)", fn.Name(), strings.Join(args, ", "))
	}
	res := fn.Signature.Results()
	var rs []string
	for i := 0; i < res.Len(); i++ {
		rs = append(rs, fmt.Sprintf("r%d", i))
	}
	if len(rs) > 0 {
		fmt.Fprintf(&body, "\t%s := %s\n", strings.Join(rs, ", "), call)
	} else {
		fmt.Fprintf(&body, "\t%s\n", call)
	}
	body.WriteString("\tout := map[string]interface{}{}\n\tresults := []vfCV{}\n")
	for i := 0; i < res.Len(); i++ {
		fmt.Fprintf(&body, "\tresults = append(results, %s)\n", g.dump(fmt.Sprintf("r%d", i), res.At(i).Type(), 0))
	}
	body.WriteString("\tpost := []vfCV{}\n")
	for i, p := range fn.Params {
		if inputs[i] == nil || inputs[i].Kind != "ptr" {
			body.WriteString("\tpost = append(post, vfCV{\"k\": \"unsupported\"})\n")
			continue
		}
		fmt.Fprintf(&body, "\tpost = append(post, %s)\n", g.dump(fmt.Sprintf("a%d", i), p.Type(), 1))
	}
	body.WriteString("\tout[\"results\"] = results\n\tout[\"post\"] = post\n\tj, _ := json.Marshal(out)\n\tfmt.Printf(\"VERIF-RESULT: %s\\n\", j)\n")

	var b strings.Builder
	fmt.Fprintf(&b, "package %s\n\nimport (\n", pkg.Pkg.Name())
	var ips []string
	for p := range g.imports {
		ips = append(ips, p)
	}
	sort.Strings(ips)
	for _, p := range ips {
		fmt.Fprintf(&b, "\t%s %q\n", g.imports[p], p)
	}
	b.WriteString(")\n\ntype vfCV = map[string]interface{}\n\n")
	b.WriteString("func vfErr(e error) vfCV {\n\tif e == nil {\n\t\treturn vfCV{\"k\": \"error\", \"b\": true}\n\t}\n\tis := []string{}\n")
	for _, s := range sents {
		q := s.name
		if s.pkgPath != fnPkgPath(fn) {
			q = s.pkgName + "." + s.name
		}
		fmt.Fprintf(&b, "\tif e == %s {\n\t\tis = append(is, %q)\n\t}\n", q, s.pkgPath+"."+s.name)
	}
	b.WriteString("\treturn vfCV{\"k\": \"error\", \"b\": false, \"is\": is}\n}\n\n")
	b.WriteString("func TestVerifReplay(t *testing.T) {\n")
	b.WriteString(body.String())
	b.WriteString("}\n")
	return b.String(), nil
}

// replayPreamble initialises process-wide state that the package's code needs (loggers, chain config,
// fork flags as in the model).
func (vc *VC) replayPreamble(g *testGen) string {
	var b strings.Builder
	path := g.pkg.Path()
	needsCommon := false
	if sp := vc.P.Pkgs[path]; sp != nil {
		for _, imp := range sp.Pkg.Imports() {
			if imp.Path() == modulePath+"/src/common" {
				needsCommon = true
			}
		}
	}
	if path == modulePath+"/src/common" {
		b.WriteString("\tInit(0, \"1.ini\", \"dev\")\n")
		return b.String()
	}
	if needsCommon {
		g.imports[modulePath+"/src/common"] = "common"
		b.WriteString("\tcommon.Init(0, \"1.ini\", \"dev\")\n")
		b.WriteString("\tcommon.SetBlockHeight(1000)\n")
		var fl []string
		for name := range vc.flagValues {
			fl = append(fl, name)
		}
		sort.Strings(fl)
		for _, name := range fl {
			field := strings.TrimPrefix(name, "Is") + "Block"
			if vc.flagValues[name] {
				fmt.Fprintf(&b, "\tcommon.LocalChainConfig.%s = 0\n", field)
			} else {
				fmt.Fprintf(&b, "\tcommon.LocalChainConfig.%s = ^uint64(0)\n", field)
			}
		}
	}
	return b.String()
}

// ---------------------------------------------------------------- binding concrete trees into a VC state

type binder struct {
	errs    []errBinding
	vc      *VC
	st      *State
	nextRef int64
	refs    map[string]int64 // path -> ref (so that pre and post states agree on object identity)
}

func (b *binder) refFor(path string) Term {
	if r, ok := b.refs[path]; ok {
		return refLit(r)
	}
	b.nextRef++
	b.refs[path] = b.nextRef
	return refLit(b.nextRef)
}

// bind returns the SMT term for cv of type typ, writing objects into the heap of b.st.
func (b *binder) bind(cv *CV, typ types.Type, path string) Term {
	vc := b.vc
	s := vc.sortOf(typ)
	if cv == nil || cv.Kind == "unsupported" {
		return vc.declFresh("unk", s)
	}
	if cv.Kind == "rat" {
		n, ok1 := new(big.Int).SetString(cv.Int, 10)
		d, ok2 := new(big.Int).SetString(cv.Str, 10)
		if ok1 && ok2 && d.Sign() != 0 {
			return realLit(new(big.Rat).SetFrac(n, d))
		}
		return vc.declFresh("unk", s)
	}
	if cv.Kind == "big" {
		if n, ok := new(big.Int).SetString(cv.Int, 10); ok {
			return intLit(n)
		}
		return vc.declFresh("unk", s)
	}
	if isU256(typ) {
		n, ok := new(big.Int).SetString(cv.Int, 10)
		if !ok {
			return vc.declFresh("unk", s)
		}
		if vc.mode == ModeMath {
			return intLit(n)
		}
		return bvLit(n, 256)
	}
	switch u := typ.Underlying().(type) {
	case *types.Basic:
		switch {
		case isBool(typ):
			if cv.Bool {
				return tTrue
			}
			return tFalse
		case isString(typ):
			return vc.strLit(cv.Str)
		}
		if bits, _, ok := intInfo(typ); ok {
			n, ok2 := new(big.Int).SetString(cv.Int, 10)
			if !ok2 {
				return vc.declFresh("unk", s)
			}
			return vc.intConst(n, bits)
		}
	case *types.Slice:
		if cv.Kind == "nil" {
			return vc.zeroOf(typ)
		}
		ref := b.refFor(path + "[]")
		comp := vc.arrComp(u.Elem())
		arrS := sortArray(vc.idxSort(), vc.sortOf(u.Elem()))
		arr := vc.declFresh("arr", arrS)
		for i, e := range cv.Elems {
			arr = tStore(arr, vc.idxLit(int64(i)), b.bind(e, u.Elem(), fmt.Sprintf("%s[%d]", path, i)))
		}
		h := vc.heapGet(b.st.heap, comp)
		b.st.heap.known[comp] = vc.define(comp, tStore(h, ref, vc.define("arrv", arr)))
		n := vc.idxLit(int64(len(cv.Elems)))
		return vc.mkSlice(ref, vc.idxLit(0), n, n)
	case *types.Array:
		arr := vc.declFresh("arr", s)
		for i, e := range cv.Elems {
			arr = tStore(arr, vc.idxLit(int64(i)), b.bind(e, u.Elem(), fmt.Sprintf("%s[%d]", path, i)))
		}
		return arr
	case *types.Pointer:
		if cv.Kind != "ptr" {
			return mk("0", sortRef)
		}
		ref := b.refFor(path + "*")
		el := u.Elem()
		v := b.bind(cv.Ptr, el, path+"*")
		comp := vc.ptrComp(el)
		h := vc.heapGet(b.st.heap, comp)
		b.st.heap.known[comp] = vc.define(comp, tStore(h, ref, v))
		return ref
	case *types.Struct:
		si := vc.structInfoOf(typ, u)
		if len(si.fields) == 0 {
			return mk(si.ctor, s)
		}
		var as []Term
		for i := range si.fields {
			var f *CV
			if i < len(cv.Fields) {
				f = cv.Fields[i]
			}
			as = append(as, b.bind(f, si.ftypes[i], path+"."+u.Field(i).Name()))
		}
		return mk(app(si.ctor, as...), s)
	case *types.Interface:
		if cv.Kind == "error" {
			if cv.Bool {
				return mk("(mk-iface 0 0)", sortIface)
			}
			e := vc.declFresh("err", sortIface)
			vc.assumeGlobal(mk(fmt.Sprintf("(and (> (ityp %s) 0) (> (iref %s) 0))", e.S, e.S), sortBool))
			b.errs = append(b.errs, errBinding{e, cv.ErrIs})
			return e
		}
	}
	return vc.declFresh("unk", s)
}

type errBinding struct {
	t  Term
	is []string
}

// evalPostConcrete2 decides whether an ensures clause is violated by the observed pre/post object graphs.
func (P *Prog) evalPostConcrete2(fn *ssa.Function, con *Contract, clauseSrc string, inputs, post, results []*CV, freeVars []*CV, flags map[string]bool, globals []globalInit, timeoutS int) (string, string) {
	vc := newVC(P, fn, modeOf(con))
	var globalTerms [][2]string
	for _, n := range strings.Split(con.Options["reveal"], ",") {
		if n != "" {
			vc.revealed[n] = true
		}
	}
	// reveal everything for concrete evaluation
	for n := range P.SpecFns {
		vc.revealed[n] = true
	}
	pre := &State{reach: tTrue, heap: &Heap{known: map[string]Term{}, ep: vc.newEpoch()}, chk: map[string]bool{}, top: mk("1000000", sortRef)}
	bp := &binder{vc: vc, st: pre, nextRef: 1000, refs: map[string]int64{}}
	names := map[string]SVal{}
	for i, p := range fn.Params {
		t := bp.bind(inputs[i], p.Type(), fmt.Sprintf("a%d", i))
		names[p.Name()] = vc.svalOfLoaded(t, p.Type())
	}
	for i, fv := range fn.FreeVars {
		el := derefType(fv.Type())
		if i < len(freeVars) {
			t := bp.bind(freeVars[i], el, fmt.Sprintf("fv%d", i))
			names[fv.Name()] = SVal{T: t, GoT: el}
		}
	}
	// configuration globals as observed/initialised in the replay
	for _, gi := range globals {
		comp := "G:" + gi.pkg.Path() + "." + gi.name
		t := bp.bind(gi.cv, gi.typ, "g:"+gi.name)
		vc.registerComp(comp, vc.sortOf(gi.typ))
		vc.registerComp("GC:"+strings.TrimPrefix(comp, "G:"), vc.sortOf(gi.typ))
		vc.constEpoch.consts["GC:"+strings.TrimPrefix(comp, "G:")] = t
		pre.heap.known[comp] = t
		globalTerms = append(globalTerms, [2]string{comp, t.S})
	}
	// post state: same object identities, new contents
	postSt := &State{reach: tTrue, heap: &Heap{known: map[string]Term{}, ep: vc.newEpoch()}, chk: map[string]bool{}, top: mk("2000000", sortRef)}
	bq := &binder{vc: vc, st: postSt, nextRef: bp.nextRef + 100000, refs: bp.refs}
	for _, gt := range globalTerms {
		postSt.heap.known[gt[0]] = mk(gt[1], vc.compSort[gt[0]])
	}
	for i, p := range fn.Params {
		if i < len(post) && isPointer(p.Type()) {
			bq.bind(post[i], p.Type(), fmt.Sprintf("a%d", i))
		}
	}
	env := &SpecEnv{vc: vc, st: postSt, old: pre, names: map[string]SVal{}, oldNames: names, pkg: vc.pkg.Pkg, ssaPkg: vc.pkg}
	for k, v := range names {
		env.names[k] = v
	}
	rn := resultNames(fn.Signature)
	res := fn.Signature.Results()
	for i := 0; i < res.Len() && i < len(results); i++ {
		t := bq.bind(results[i], res.At(i).Type(), fmt.Sprintf("r%d", i))
		sv := vc.svalOfLoaded(t, res.At(i).Type())
		env.names[rn[i]] = sv
		env.names[fmt.Sprintf("result%d", i)] = sv
		if res.Len() == 1 {
			env.names["result"] = sv
		}
	}
	var clause *Clause
	for _, e := range con.Ensures {
		if e.Src == clauseSrc {
			clause = e
		}
	}
	if clause == nil {
		return "error", "clause not found"
	}
	t := vc.evalSpecBool(env, clause)
	if len(vc.errs) > 0 {
		return "error", strings.Join(vc.errs, "; ")
	}
	for comp := range vc.sentinelSeen {
		c := vc.epochGet(vc.constEpoch, comp)
		if c.T.K != SIface {
			continue
		}
		full := strings.TrimPrefix(comp, "GC:")
		for _, ev := range append(bp.errs, bq.errs...) {
			eq := false
			for _, n := range ev.is {
				if n == full {
					eq = true
				}
			}
			if eq {
				vc.assumeGlobal(tEq(ev.t, c))
			} else {
				vc.assumeGlobal(tNot(tEq(ev.t, c)))
			}
		}
	}
	for name, v := range flags {
		f := vc.flagConst(name)
		if v {
			vc.assumeGlobal(f)
		} else {
			vc.assumeGlobal(tNot(f))
		}
	}
	ob := &Obligation{Name: "replay-eval", Prefix: len(vc.out), Reach: tTrue, Goal: t, Expect: "unsat"}
	script := vc.script(ob)
	dir, _ := osMkTemp("govc-ev-")
	defer osRemoveAll(dir)
	r := runSolvers(script, dir, "eval", timeoutS, false, "unsat")
	return r.result, r.out
}

func cvFromJSON(raw interface{}) *CV {
	b, _ := json.Marshal(raw)
	var cv CV
	json.Unmarshal(b, &cv)
	return &cv
}

func osMkTemp(p string) (string, error) { return os.MkdirTemp("", p) }
func osRemoveAll(d string)               { os.RemoveAll(d) }

// boundTerms lists the length terms of slices/strings reachable from the inputs (two levels deep).
func (vc *VC) boundTerms(t Term, typ types.Type, heap *Heap, depth int, out *[]Term) {
	if depth > 2 {
		return
	}
	switch u := typ.Underlying().(type) {
	case *types.Slice:
		*out = append(*out, mk("(sl-len "+t.S+")", vc.idxSort()))
	case *types.Basic:
		if isString(typ) && strings.Contains(vc.scriptHeader, "str-len") {
			*out = append(*out, mk("(str-len "+t.S+")", vc.idxSort()))
		}
	case *types.Pointer:
		el := u.Elem()
		if st, ok := el.Underlying().(*types.Struct); ok && !isU256(el) && !isBigInt(el) {
			hv := vc.heapGet(heap, vc.ptrComp(el))
			if !strings.Contains(vc.scriptHeader, "declare-fun "+hv.S+" ") && !strings.Contains(vc.scriptHeader, "define-fun "+hv.S+" ") && !strings.Contains(vc.scriptHeader, "declare-const "+hv.S+" ") {
				return
			}
			obj := tSelect(hv, t)
			si := vc.structInfoOf(el, st)
			for i, f := range si.fields {
				ft := si.ftypes[i]
				vc.boundTerms(mk("("+f+" "+obj.S+")", vc.sortOf(ft)), ft, heap, depth+1, out)
			}
		}
	}
}

// parseReal parses SMT real values: 1.5, (/ 3.0 2.0), (- 1.0), (- (/ 1 2)), 7
func parseReal(s string) (*big.Rat, bool) {
	s = strings.TrimSpace(s)
	if strings.HasPrefix(s, "(") {
		parts := splitSexp(s[1 : len(s)-1])
		if len(parts) == 2 && parts[0] == "-" {
			r, ok := parseReal(parts[1])
			if !ok {
				return nil, false
			}
			return r.Neg(r), true
		}
		if len(parts) == 3 && parts[0] == "/" {
			a, ok1 := parseReal(parts[1])
			b, ok2 := parseReal(parts[2])
			if !ok1 || !ok2 || b.Sign() == 0 {
				return nil, false
			}
			return a.Quo(a, b), true
		}
		return nil, false
	}
	s = strings.TrimSuffix(s, "?")
	r, ok := new(big.Rat).SetString(s)
	return r, ok
}
