package main

import (
	"fmt"
	"go/token"
	"go/types"

	"golang.org/x/tools/go/ssa"
)

func (vc *VC) frameEnv(fr *Frame, st *State, at *ssa.BasicBlock, sub map[ssa.Value]Val) *SpecEnv {
	old := map[string]SVal{}
	for i, p := range fr.fn.Params {
		if i < len(fr.args) {
			old[p.Name()] = vc.sval(fr.args[i], p.Type())
		}
	}
	var pkg *types.Package
	var sp *ssa.Package
	if p := fr.fn.Pkg; p != nil {
		pkg, sp = p.Pkg, p
	} else if fr.fn.Parent() != nil && fr.fn.Parent().Pkg != nil {
		pkg, sp = fr.fn.Parent().Pkg.Pkg, fr.fn.Parent().Pkg
	}
	return &SpecEnv{vc: vc, fr: fr, st: st, old: fr.entrySt, names: map[string]SVal{}, oldNames: old, atBlock: at, sub: sub, pkg: pkg, ssaPkg: sp}
}

// evalClause evaluates a loop clause at the entry of block at (after phis), with phi substitution sub.
func (vc *VC) evalClause(fr *Frame, st *State, c *Clause, at *ssa.BasicBlock, sub map[ssa.Value]Val) Term {
	if phi, ok := c.Implicit.(*ssa.Phi); ok {
		var v Val
		if sub != nil {
			if x, ok := sub[phi]; ok {
				v = x
			}
		}
		if v.T.T == nil {
			v = vc.operand(fr, st, phi)
		}
		// upper bound: the header compares index+1 against the length taken before the loop
		var bound Term
		for _, ins := range phi.Block().Instrs {
			if b, ok := ins.(*ssa.BinOp); ok && b.Op == token.LSS {
				if inc, ok := b.X.(*ssa.BinOp); ok && inc.Op == token.ADD && inc.X == phi {
					if lv, ok := b.Y.(ssa.Instruction); ok && lv.Block() != phi.Block() {
						bound = vc.operand(fr, st, b.Y).T
					}
				}
			}
		}
		if vc.mode == ModeBV {
			r := mk(fmt.Sprintf("(and (bvsge %s (bvneg (_ bv1 64))) (bvslt %s #x4000000000000000))", v.T.S, v.T.S), sortBool)
			if bound.T != nil {
				r = tAnd(r, mk(fmt.Sprintf("(bvslt %s %s)", v.T.S, bound.S), sortBool))
			}
			return r
		}
		r := mk(fmt.Sprintf("(and (>= %s (- 1)) (< %s 4611686018427387904))", v.T.S, v.T.S), sortBool)
		if bound.T != nil {
			r = tAnd(r, mk(fmt.Sprintf("(< %s %s)", v.T.S, bound.S), sortBool))
		}
		return r
	}
	return vc.evalSpecBool(vc.frameEnv(fr, st, at, sub), c)
}

func (vc *VC) evalClauseVal(fr *Frame, st *State, c *Clause, at *ssa.BasicBlock, sub map[ssa.Value]Val) (v Val) {
	env := vc.frameEnv(fr, st, at, sub)
	defer func() {
		if r := recover(); r != nil {
			if se, ok := r.(specErr); ok {
				vc.errorf("%s:%d: in %q: %s", shortPath(c.File), c.Line, c.Src, se.msg)
				v = Val{}
				return
			}
			panic(r)
		}
	}()
	sv := env.eval(c.Expr)
	return Val{T: env.termOrLoad(sv)}
}

// dynCall resolves a call through a function value against a family contract (see family.go).
func (vc *VC) dynCall(fr *Frame, st *State, fam string, fv Val, args []Val, argTypes []types.Type, resType types.Type, pos interface{}) (Val, bool) {
	return Val{}, false
}
