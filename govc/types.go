package main

import (
	"fmt"
	"go/types"
	"regexp"
	"strings"
)

type Mode int

const (
	ModeBV Mode = iota
	ModeMath
)

func (m Mode) String() string {
	if m == ModeBV {
		return "bv"
	}
	return "math"
}

// typeKey gives a stable, package-qualified short string for a Go type.
var aliasWordRe = regexp.MustCompile(`\b(byte|rune)\b`)

func typeKey(t types.Type) string {
	s := types.TypeString(t, func(p *types.Package) string {
		path := p.Path()
		path = strings.TrimPrefix(path, modulePath+"/src/")
		return path
	})
	// byte/uint8 and rune/int32 are identical types: one heap component each
	return aliasWordRe.ReplaceAllStringFunc(s, func(w string) string {
		if w == "byte" {
			return "uint8"
		}
		return "int32"
	})
}

func isNamed(t types.Type, pkgSuffix, name string) bool {
	n, ok := t.(*types.Named)
	if !ok {
		return false
	}
	o := n.Obj()
	return o.Name() == name && o.Pkg() != nil && strings.HasSuffix(o.Pkg().Path(), pkgSuffix)
}

func isU256(t types.Type) bool   { return isNamed(t, "holiman/uint256", "Int") }
func isBigInt(t types.Type) bool { return isNamed(t, "math/big", "Int") }
func isBigRat(t types.Type) bool { return isNamed(t, "math/big", "Rat") }
func isBigFloat(t types.Type) bool {
	return isNamed(t, "math/big", "Float")
}

func derefType(t types.Type) types.Type {
	if p, ok := t.Underlying().(*types.Pointer); ok {
		return p.Elem()
	}
	return t
}

func isPointer(t types.Type) bool {
	_, ok := t.Underlying().(*types.Pointer)
	return ok
}

func intInfo(t types.Type) (bits int, signed bool, ok bool) {
	b, isb := t.Underlying().(*types.Basic)
	if !isb {
		return 0, false, false
	}
	switch b.Kind() {
	case types.Int8:
		return 8, true, true
	case types.Int16:
		return 16, true, true
	case types.Int32:
		return 32, true, true
	case types.Int64, types.Int:
		return 64, true, true
	case types.Uint8:
		return 8, false, true
	case types.Uint16:
		return 16, false, true
	case types.Uint32:
		return 32, false, true
	case types.Uint64, types.Uint, types.Uintptr:
		return 64, false, true
	case types.UntypedInt, types.UntypedRune:
		return 64, true, true
	}
	return 0, false, false
}

func isBool(t types.Type) bool {
	b, ok := t.Underlying().(*types.Basic)
	return ok && (b.Kind() == types.Bool || b.Kind() == types.UntypedBool)
}

func isString(t types.Type) bool {
	b, ok := t.Underlying().(*types.Basic)
	return ok && (b.Kind() == types.String || b.Kind() == types.UntypedString)
}

func isFloat(t types.Type) bool {
	b, ok := t.Underlying().(*types.Basic)
	return ok && (b.Kind() == types.Float64 || b.Kind() == types.Float32 || b.Kind() == types.UntypedFloat)
}

// idxSort is the sort of int-like indices and lengths in this mode.
func (vc *VC) idxSort() *Sort {
	if vc.mode == ModeBV {
		return sortBV(64)
	}
	return sortInt
}

func (vc *VC) intSort(bits int) *Sort {
	if vc.mode == ModeBV {
		return sortBV(bits)
	}
	return sortInt
}

func (vc *VC) idxLit(v int64) Term {
	if vc.mode == ModeBV {
		return bvLitI(v, 64)
	}
	return intLitI(v)
}

// sortOf maps a Go type to the SMT sort of its values (pointers are Ref).
func (vc *VC) sortOf(t types.Type) *Sort {
	if isU256(t) {
		if vc.mode == ModeMath {
			return sortInt
		}
		return sortBV(256)
	}
	if isBigInt(t) {
		return sortInt
	}
	if isBigRat(t) || isBigFloat(t) {
		return sortReal
	}
	switch u := t.Underlying().(type) {
	case *types.Basic:
		if bits, _, ok := intInfo(t); ok {
			return vc.intSort(bits)
		}
		switch {
		case isBool(t):
			return sortBool
		case isString(t):
			vc.needStr = true
			return sortStr
		case isFloat(t):
			if vc.mode == ModeMath {
				return sortReal
			}
			return vc.opaqueSort("F64")
		case u.Kind() == types.UnsafePointer:
			return sortRef
		case u.Kind() == types.UntypedNil:
			return sortRef
		}
		return vc.opaqueSort("Basic_" + u.Name())
	case *types.Pointer, *types.Map, *types.Chan:
		return sortRef
	case *types.Slice:
		return sortSlice
	case *types.Array:
		es := vc.sortOf(u.Elem())
		return sortArray(vc.idxSort(), es)
	case *types.Struct:
		return vc.structSort(t, u)
	case *types.Interface:
		return sortIface
	case *types.Signature:
		return vc.opaqueSort("Fn")
	case *types.Tuple:
		return vc.opaqueSort("Tuple")
	}
	return vc.opaqueSort("Unknown")
}

func (vc *VC) opaqueSort(name string) *Sort {
	if s, ok := vc.opaque[name]; ok {
		return s
	}
	s := &Sort{K: SOpaque, Name: name}
	vc.opaque[name] = s
	vc.sortDecls = append(vc.sortDecls, fmt.Sprintf("(declare-sort %s 0)", name))
	return s
}

type structInfo struct {
	sort   *Sort
	ctor   string
	fields []string // accessor names
	ftypes []types.Type
	st     *types.Struct
}

func (vc *VC) structSort(t types.Type, st *types.Struct) *Sort {
	return vc.structInfoOf(t, st).sort
}

func (vc *VC) structInfoOf(t types.Type, st *types.Struct) *structInfo {
	key := typeKey(t)
	if _, named := t.(*types.Named); !named {
		key = "anon!" + fmt.Sprint(len(vc.structs)) + "!" + key
		// anonymous structs: identical types share by string
		for _, si := range vc.structs {
			if types.Identical(si.st, st) {
				return si
			}
		}
	}
	if si, ok := vc.structs[key]; ok {
		return si
	}
	sname := smtIdent("S!" + key)
	si := &structInfo{sort: &Sort{K: SStruct, Name: sname}, ctor: smtIdent("mk!" + key), st: st}
	vc.structs[key] = si
	var fdecl []string
	for i := 0; i < st.NumFields(); i++ {
		f := st.Field(i)
		fs := vc.sortOf(f.Type()) // may recursively declare nested structs first
		fn := f.Name()
		if fn == "_" {
			fn = fmt.Sprintf("_blank%d", i)
		}
		acc := smtIdent(key + "!" + fn)
		si.fields = append(si.fields, acc)
		si.ftypes = append(si.ftypes, f.Type())
		fdecl = append(fdecl, fmt.Sprintf("(%s %s)", acc, fs.Name))
	}
	if len(fdecl) == 0 {
		vc.sortDecls = append(vc.sortDecls, fmt.Sprintf("(declare-datatypes ((%s 0)) (((%s))))", sname, si.ctor))
	} else {
		vc.sortDecls = append(vc.sortDecls, fmt.Sprintf("(declare-datatypes ((%s 0)) (((%s %s))))", sname, si.ctor, strings.Join(fdecl, " ")))
	}
	return si
}

// zeroOf gives the zero value term of a Go type.
func (vc *VC) zeroOf(t types.Type) Term {
	s := vc.sortOf(t)
	return vc.zeroOfSort(s, t)
}

func (vc *VC) zeroOfSort(s *Sort, t types.Type) Term {
	switch s.K {
	case SBool:
		return tFalse
	case SBV:
		return bvLitI(0, s.Bits)
	case SInt:
		return mk("0", s)
	case SRef:
		return mk("0", s)
	case SReal:
		return mk("0.0", s)
	case SSlice:
		return mk(fmt.Sprintf("(mk-slice 0 %s %s %s)", vc.idxLit(0), vc.idxLit(0), vc.idxLit(0)), sortSlice)
	case SIface:
		return mk("(mk-iface 0 0)", sortIface)
	case SStr:
		return vc.strLit("")
	case SArray:
		var et types.Type
		if a, ok := t.Underlying().(*types.Array); ok {
			et = a.Elem()
		}
		var ez Term
		if et != nil {
			ez = vc.zeroOf(et)
		} else {
			ez = vc.zeroOfSort(s.Elem, nil)
		}
		return mk(fmt.Sprintf("((as const %s) %s)", s.Name, ez.S), s)
	case SStruct:
		st := t.Underlying().(*types.Struct)
		si := vc.structInfoOf(t, st)
		if len(si.fields) == 0 {
			return mk(si.ctor, s)
		}
		var as []Term
		for _, ft := range si.ftypes {
			as = append(as, vc.zeroOf(ft))
		}
		return mk(app(si.ctor, as...), s)
	case SOpaque:
		// one nil constant per opaque sort (function values, channels, ...)
		name := smtIdent("nil!" + s.Name)
		if !vc.uf[name] {
			vc.uf[name] = true
			vc.constDecls = append(vc.constDecls, fmt.Sprintf("(declare-const %s %s)", name, s.Name))
		}
		return mk(name, s)
	}
	return vc.declFresh("zero", s)
}

func (vc *VC) strLit(v string) Term {
	vc.needStr = true
	if t, ok := vc.strLits[v]; ok {
		return t
	}
	name := smtIdent(fmt.Sprintf("str!%d!%s", len(vc.strLits), sanitize(v)))
	t := mk(name, sortStr)
	vc.strLits[v] = t
	vc.sortDecls = append(vc.sortDecls, fmt.Sprintf("(declare-const %s Str)", name))
	vc.strLitOrder = append(vc.strLitOrder, v)
	return t
}

func sanitize(s string) string {
	var b strings.Builder
	for _, c := range s {
		if (c >= 'a' && c <= 'z') || (c >= 'A' && c <= 'Z') || (c >= '0' && c <= '9') || c == '_' || c == '.' || c == '-' {
			b.WriteRune(c)
		} else {
			b.WriteByte('_')
		}
		if b.Len() > 24 {
			break
		}
	}
	return b.String()
}
