package main

import (
	"fmt"
	"math/big"
	"strings"
)

// Sort kinds of SMT terms as the generator sees them.
type SortKind int

const (
	SBool SortKind = iota
	SBV            // bit-vector of Bits
	SInt           // mathematical integer (math mode machine ints, big.Int)
	SReal          // big.Rat / big.Float / float64 in math mode
	SRef           // heap reference (Int)
	SSlice         // datatype Slice
	SStruct        // datatype per struct type
	SArray         // (Array Idx Elem)
	SIface         // datatype Iface
	SStr           // uninterpreted Str
	SOpaque        // uninterpreted sort (funcs, floats in bv mode, ...)
	SMapV          // map value held in map heap: datatype MapV_K_V
)

type Sort struct {
	K    SortKind
	Bits int    // SBV
	Name string // SMT sort text
	Elem *Sort  // SArray
	// for machine ints in math mode we keep width/sign info in the Go type, not here
}

func (s *Sort) String() string { return s.Name }

var (
	sortBool  = &Sort{K: SBool, Name: "Bool"}
	sortInt   = &Sort{K: SInt, Name: "Int"}
	sortReal  = &Sort{K: SReal, Name: "Real"}
	sortRef   = &Sort{K: SRef, Name: "Int"}
	sortSlice = &Sort{K: SSlice, Name: "Slice"}
	sortIface = &Sort{K: SIface, Name: "Iface"}
	sortStr   = &Sort{K: SStr, Name: "Str"}
)

var bvSorts = map[int]*Sort{}

func sortBV(n int) *Sort {
	if s, ok := bvSorts[n]; ok {
		return s
	}
	s := &Sort{K: SBV, Bits: n, Name: fmt.Sprintf("(_ BitVec %d)", n)}
	bvSorts[n] = s
	return s
}

// Term is an SMT-LIB term as text plus its sort.
type Term struct {
	S string
	T *Sort
}

func (t Term) String() string { return t.S }

func mk(s string, t *Sort) Term { return Term{S: s, T: t} }

var (
	tTrue  = mk("true", sortBool)
	tFalse = mk("false", sortBool)
)

func app(op string, args ...Term) string {
	if len(args) == 0 {
		return op // a constant (nullary function)
	}
	var b strings.Builder
	b.WriteByte('(')
	b.WriteString(op)
	for _, a := range args {
		b.WriteByte(' ')
		b.WriteString(a.S)
	}
	b.WriteByte(')')
	return b.String()
}

func tAnd(ts ...Term) Term {
	var xs []Term
	for _, t := range ts {
		if t.S == "true" {
			continue
		}
		if t.S == "false" {
			return tFalse
		}
		xs = append(xs, t)
	}
	if len(xs) == 0 {
		return tTrue
	}
	if len(xs) == 1 {
		return xs[0]
	}
	return mk(app("and", xs...), sortBool)
}

func tOr(ts ...Term) Term {
	var xs []Term
	for _, t := range ts {
		if t.S == "false" {
			continue
		}
		if t.S == "true" {
			return tTrue
		}
		xs = append(xs, t)
	}
	if len(xs) == 0 {
		return tFalse
	}
	if len(xs) == 1 {
		return xs[0]
	}
	return mk(app("or", xs...), sortBool)
}

func tNot(t Term) Term {
	if t.S == "true" {
		return tFalse
	}
	if t.S == "false" {
		return tTrue
	}
	return mk("(not "+t.S+")", sortBool)
}

func tImp(a, b Term) Term {
	if a.S == "true" {
		return b
	}
	if a.S == "false" || b.S == "true" {
		return tTrue
	}
	return mk(app("=>", a, b), sortBool)
}

func tEq(a, b Term) Term {
	if a.S == b.S {
		return tTrue
	}
	return mk(app("=", a, b), sortBool)
}

func tIte(c, a, b Term) Term {
	if c.S == "true" {
		return a
	}
	if c.S == "false" {
		return b
	}
	if a.S == b.S {
		return a
	}
	return mk(app("ite", c, a, b), a.T)
}

func bvLit(v *big.Int, bits int) Term {
	m := new(big.Int).Lsh(big.NewInt(1), uint(bits))
	x := new(big.Int).Mod(v, m)
	if x.Sign() < 0 {
		x.Add(x, m)
	}
	return mk(fmt.Sprintf("(_ bv%s %d)", x.String(), bits), sortBV(bits))
}

func bvLitI(v int64, bits int) Term { return bvLit(big.NewInt(v), bits) }

func intLit(v *big.Int) Term {
	if v.Sign() < 0 {
		return mk("(- "+new(big.Int).Neg(v).String()+")", sortInt)
	}
	return mk(v.String(), sortInt)
}

func intLitI(v int64) Term { return intLit(big.NewInt(v)) }

func refLit(v int64) Term { return mk(fmt.Sprint(v), sortRef) }

func realLit(r *big.Rat) Term {
	n, d := r.Num(), r.Denom()
	s := fmt.Sprintf("(/ %s.0 %s.0)", new(big.Int).Abs(n).String(), d.String())
	if n.Sign() < 0 {
		s = "(- " + s + ")"
	}
	return mk(s, sortReal)
}

func tSelect(a, i Term) Term {
	var es *Sort
	if a.T != nil {
		es = a.T.Elem
	}
	return mk(app("select", a, i), es)
}

func tStore(a, i, v Term) Term { return mk(app("store", a, i, v), a.T) }

func sortArray(idx, elem *Sort) *Sort {
	return &Sort{K: SArray, Name: fmt.Sprintf("(Array %s %s)", idx.Name, elem.Name), Elem: elem}
}

// smtIdent makes a string safe to use inside |...| quoted symbols.
func smtIdent(s string) string {
	s = strings.ReplaceAll(s, "|", "!")
	s = strings.ReplaceAll(s, "\\", "!")
	return "|" + s + "|"
}
