package main

import (
	"fmt"
	"strings"
	"unicode"
)

// SExpr is a node of the specification expression language.
type SExpr struct {
	Op      string // "lit","id","sel","idx","slice","call","un","bin","forall","exists","old","paren"
	Name    string // identifier / operator / field
	Lit     string
	Args    []*SExpr
	Binders []Binder
	Pos     int
}

type Binder struct {
	Name string
	Type string
}

func (e *SExpr) String() string {
	switch e.Op {
	case "lit":
		return e.Lit
	case "id":
		return e.Name
	case "sel":
		return e.Args[0].String() + "." + e.Name
	case "idx":
		return e.Args[0].String() + "[" + e.Args[1].String() + "]"
	case "slice":
		s := e.Args[0].String() + "["
		if e.Args[1] != nil {
			s += e.Args[1].String()
		}
		s += ":"
		if e.Args[2] != nil {
			s += e.Args[2].String()
		}
		return s + "]"
	case "call":
		var as []string
		for _, a := range e.Args {
			as = append(as, a.String())
		}
		return e.Name + "(" + strings.Join(as, ", ") + ")"
	case "un":
		return e.Name + e.Args[0].String()
	case "bin":
		return "(" + e.Args[0].String() + " " + e.Name + " " + e.Args[1].String() + ")"
	case "forall", "exists":
		var bs []string
		for _, b := range e.Binders {
			bs = append(bs, b.Name+" "+b.Type)
		}
		return e.Op + " " + strings.Join(bs, ", ") + " :: " + e.Args[0].String()
	}
	return "?"
}

type specLexer struct {
	src  string
	pos  int
	toks []specTok
	i    int
}

type specTok struct {
	kind string // "id","num","str","op","eof"
	text string
	pos  int
}

func lexSpec(src string) ([]specTok, error) {
	var toks []specTok
	i := 0
	ops := []string{"<==>", "==>", "::", "<<", ">>", "&^", "&&", "||", "==", "!=", "<=", ">=",
		"+", "-", "*", "/", "%", "&", "|", "^", "!", "<", ">", "(", ")", "[", "]", ".", ",", ":", "@"}
	for i < len(src) {
		c := rune(src[i])
		if unicode.IsSpace(c) {
			i++
			continue
		}
		if unicode.IsLetter(c) || c == '_' || c == '$' {
			j := i
			for j < len(src) && (unicode.IsLetter(rune(src[j])) || unicode.IsDigit(rune(src[j])) || src[j] == '_' || src[j] == '$' || src[j] == '!') {
				j++
			}
			toks = append(toks, specTok{"id", src[i:j], i})
			i = j
			continue
		}
		if unicode.IsDigit(c) {
			j := i
			for j < len(src) && (unicode.IsDigit(rune(src[j])) || unicode.IsLetter(rune(src[j])) || src[j] == '_') {
				j++
			}
			toks = append(toks, specTok{"num", strings.ReplaceAll(src[i:j], "_", ""), i})
			i = j
			continue
		}
		if c == '"' {
			j := i + 1
			for j < len(src) && src[j] != '"' {
				j++
			}
			if j >= len(src) {
				return nil, fmt.Errorf("unterminated string at %d", i)
			}
			toks = append(toks, specTok{"str", src[i+1 : j], i})
			i = j + 1
			continue
		}
		matched := false
		for _, op := range ops {
			if strings.HasPrefix(src[i:], op) {
				toks = append(toks, specTok{"op", op, i})
				i += len(op)
				matched = true
				break
			}
		}
		if !matched {
			return nil, fmt.Errorf("unexpected character %q at %d in %q", c, i, src)
		}
	}
	toks = append(toks, specTok{"eof", "", len(src)})
	return toks, nil
}

type specParser struct {
	toks []specTok
	i    int
	src  string
}

func parseSpec(src string) (e *SExpr, err error) {
	toks, err := lexSpec(src)
	if err != nil {
		return nil, err
	}
	p := &specParser{toks: toks, src: src}
	defer func() {
		if r := recover(); r != nil {
			if pe, ok := r.(specParseErr); ok {
				err = fmt.Errorf("%s", string(pe))
				return
			}
			panic(r)
		}
	}()
	e = p.expr()
	if p.peek().kind != "eof" {
		p.fail("unexpected %q", p.peek().text)
	}
	return e, nil
}

type specParseErr string

func (p *specParser) fail(f string, a ...interface{}) {
	panic(specParseErr(fmt.Sprintf("spec parse error at %d in %q: ", p.peek().pos, p.src) + fmt.Sprintf(f, a...)))
}
func (p *specParser) peek() specTok { return p.toks[p.i] }
func (p *specParser) next() specTok  { t := p.toks[p.i]; p.i++; return t }
func (p *specParser) isOp(s string) bool {
	t := p.peek()
	return t.kind == "op" && t.text == s
}
func (p *specParser) accept(s string) bool {
	if p.isOp(s) {
		p.i++
		return true
	}
	return false
}
func (p *specParser) expect(s string) {
	if !p.accept(s) {
		p.fail("expected %q, got %q", s, p.peek().text)
	}
}

func (p *specParser) expr() *SExpr { return p.iff() }

func (p *specParser) iff() *SExpr {
	l := p.imp()
	for p.isOp("<==>") {
		p.next()
		r := p.imp()
		l = &SExpr{Op: "bin", Name: "<==>", Args: []*SExpr{l, r}}
	}
	return l
}

func (p *specParser) imp() *SExpr {
	l := p.or()
	if p.isOp("==>") {
		p.next()
		r := p.imp()
		return &SExpr{Op: "bin", Name: "==>", Args: []*SExpr{l, r}}
	}
	return l
}

func (p *specParser) or() *SExpr {
	l := p.and()
	for p.isOp("||") {
		p.next()
		r := p.and()
		l = &SExpr{Op: "bin", Name: "||", Args: []*SExpr{l, r}}
	}
	return l
}

func (p *specParser) and() *SExpr {
	l := p.cmp()
	for p.isOp("&&") {
		p.next()
		r := p.cmp()
		l = &SExpr{Op: "bin", Name: "&&", Args: []*SExpr{l, r}}
	}
	return l
}

func (p *specParser) cmp() *SExpr {
	l := p.add()
	for _, op := range []string{"==", "!=", "<=", ">=", "<", ">"} {
		if p.isOp(op) {
			p.next()
			r := p.add()
			return &SExpr{Op: "bin", Name: op, Args: []*SExpr{l, r}}
		}
	}
	return l
}

func (p *specParser) add() *SExpr {
	l := p.mul()
	for {
		found := false
		for _, op := range []string{"+", "-", "|", "^"} {
			if p.isOp(op) {
				p.next()
				r := p.mul()
				l = &SExpr{Op: "bin", Name: op, Args: []*SExpr{l, r}}
				found = true
				break
			}
		}
		if !found {
			return l
		}
	}
}

func (p *specParser) mul() *SExpr {
	l := p.unary()
	for {
		found := false
		for _, op := range []string{"*", "/", "%", "<<", ">>", "&^", "&"} {
			if p.isOp(op) {
				p.next()
				r := p.unary()
				l = &SExpr{Op: "bin", Name: op, Args: []*SExpr{l, r}}
				found = true
				break
			}
		}
		if !found {
			return l
		}
	}
}

func (p *specParser) unary() *SExpr {
	for _, op := range []string{"!", "-", "^", "*", "&"} {
		if p.isOp(op) {
			p.next()
			x := p.unary()
			return &SExpr{Op: "un", Name: op, Args: []*SExpr{x}}
		}
	}
	return p.postfix()
}

func (p *specParser) postfix() *SExpr {
	e := p.primary()
	for {
		switch {
		case p.isOp("."):
			p.next()
			t := p.next()
			if t.kind != "id" {
				p.fail("expected field name")
			}
			// package-qualified identifiers and calls are resolved by the evaluator
			e = &SExpr{Op: "sel", Name: t.text, Args: []*SExpr{e}}
		case p.isOp("["):
			p.next()
			var lo, hi *SExpr
			if !p.isOp(":") {
				lo = p.expr()
			}
			if p.accept(":") {
				if !p.isOp("]") {
					hi = p.expr()
				}
				p.expect("]")
				e = &SExpr{Op: "slice", Args: []*SExpr{e, lo, hi}}
			} else {
				p.expect("]")
				e = &SExpr{Op: "idx", Args: []*SExpr{e, lo}}
			}
		case p.isOp("("):
			p.next()
			var args []*SExpr
			for !p.isOp(")") {
				args = append(args, p.expr())
				if !p.accept(",") {
					break
				}
			}
			p.expect(")")
			name := ""
			switch e.Op {
			case "id":
				name = e.Name
			case "sel":
				// method-like or pkg-qualified call: keep receiver as first arg with dotted name
				name = "." + e.Name
				args = append([]*SExpr{e.Args[0]}, args...)
			default:
				p.fail("cannot call %s", e)
			}
			e = &SExpr{Op: "call", Name: name, Args: args}
		default:
			return e
		}
	}
}

func (p *specParser) primary() *SExpr {
	t := p.next()
	switch t.kind {
	case "num":
		return &SExpr{Op: "lit", Lit: t.text, Pos: t.pos}
	case "str":
		return &SExpr{Op: "lit", Lit: "\"" + t.text + "\"", Pos: t.pos}
	case "id":
		if t.text == "forall" || t.text == "exists" {
			var bs []Binder
			for {
				n := p.next()
				if n.kind != "id" {
					p.fail("expected binder name")
				}
				ty := p.next()
				if ty.kind != "id" {
					p.fail("expected binder type")
				}
				tname := ty.text
				// package-qualified binder types: common.Address
				for p.isOp(".") && p.toks[p.i+1].kind == "id" {
					p.next()
					tname += "." + p.next().text
				}
				bs = append(bs, Binder{n.text, tname})
				if !p.accept(",") {
					break
				}
			}
			p.expect("::")
			body := p.expr()
			return &SExpr{Op: t.text, Binders: bs, Args: []*SExpr{body}}
		}
		return &SExpr{Op: "id", Name: t.text, Pos: t.pos}
	case "op":
		if t.text == "(" {
			e := p.expr()
			p.expect(")")
			return e
		}
		if t.text == "@" {
			// raw SMT function call: @name(args)
			n := p.next()
			if n.kind != "id" {
				p.fail("expected smt function name after @")
			}
			var args []*SExpr
			if p.accept("(") {
				for !p.isOp(")") {
					args = append(args, p.expr())
					if !p.accept(",") {
						break
					}
				}
				p.expect(")")
			}
			return &SExpr{Op: "call", Name: "@" + n.text, Args: args}
		}
	}
	p.i--
	p.fail("unexpected token %q", t.text)
	return nil
}
