package main

import (
	"fmt"
	"os"
	"go/types"
	"sort"
	"strings"

	"golang.org/x/tools/go/ssa"
)

// FuncResult is the outcome of generating VCs for one function under contract.
type FuncResult struct {
	Name      string
	Contract  *Contract
	Mode      Mode
	Obls      []*Obligation
	Errors    []string
	Notes     map[string]int
	Havoc     map[string]int
	EffFree   map[string]int
	Inlined   map[string]int
	Trusted   []string
	UsedCons  []string
	VC        *VC
	Vacuity   []*Obligation
	SkippedSlow int
	VacuityUnknown int
}

func modeOf(c *Contract) Mode {
	if c != nil && c.Options["intmode"] == "math" {
		return ModeMath
	}
	return ModeBV
}

// verifyFunction generates all obligations of fn against its contract.
// verifyFunction generates all obligations of fn against its contract. With "option cases=PARAM:LO:HI" the
// function is verified once per constant value of the integer parameter PARAM (everything that depends on
// it becomes literal); obligation names carry the case.
func (P *Prog) verifyFunction(fn *ssa.Function, con *Contract) *FuncResult {
	cs := con.Options["cases"]
	if cs == "" {
		return P.verifyFunctionCase(fn, con, "", 0)
	}
	parts := strings.Split(cs, ":")
	var lo, hi int64
	if len(parts) != 3 {
		r := &FuncResult{Name: shortFuncName(fn), Contract: con}
		r.Errors = append(r.Errors, "option cases=PARAM:LO:HI malformed")
		return r
	}
	fmt.Sscan(parts[1], &lo)
	fmt.Sscan(parts[2], &hi)
	var all *FuncResult
	for k := lo; k <= hi; k++ {
		r := P.verifyFunctionCase(fn, con, parts[0], k)
		if all == nil {
			all = r
			continue
		}
		all.Obls = append(all.Obls, r.Obls...)
		all.Vacuity = append(all.Vacuity, r.Vacuity...)
		all.Errors = dedupe(append(all.Errors, r.Errors...))
		for kk, v := range r.Havoc {
			all.Havoc[kk] += v
		}
		for kk, v := range r.Notes {
			all.Notes[kk] += v
		}
	}
	return all
}

func (P *Prog) verifyFunctionCase(fn *ssa.Function, con *Contract, caseParam string, caseValue int64) *FuncResult {
	mode := modeOf(con)
	vc := newVC(P, fn, mode)
	if caseParam != "" {
		vc.caseParam, vc.caseValue = caseParam, caseValue
		vc.caseTag = fmt.Sprintf("[%s=%d]", caseParam, caseValue)
	}
	vc.mathInts = con.opt("mathints")
	if con.opt("digits") {
		// decval/decvalid denote the digit-string theory's dv/dvalid in this function (see digitAxioms)
		vc.digitTheory, vc.needDigits, vc.needStr = true, true, true
	}
	for _, n := range strings.Split(con.Options["reveal"], ",") {
		if n != "" {
			vc.revealed[n] = true
		}
	}
	res := &FuncResult{Name: shortFuncName(fn), Contract: con, Mode: mode, VC: vc}
	defer func() {
		res.Obls = vc.obls
		res.Errors = dedupe(vc.errs)
		res.Notes = vc.notes
		res.Havoc = vc.havocCalls
		res.EffFree = vc.effectFree
		res.Inlined = vc.inlined
		for k := range vc.trusted {
			res.Trusted = append(res.Trusted, k)
		}
		sort.Strings(res.Trusted)
		for k := range vc.usedContracts {
			res.UsedCons = append(res.UsedCons, k)
		}
		sort.Strings(res.UsedCons)
	}()
	if len(fn.Blocks) == 0 {
		vc.errorf("function %s has no body", fn.Name())
		return res
	}
	fr := vc.newFrame(fn, nil)
	vc.top = fr
	st := &State{reach: tTrue, heap: &Heap{known: map[string]Term{}, ep: vc.newEpoch()}, chk: map[string]bool{}}
	st.top = vc.declFresh("top", sortRef)
	vc.assumeGlobal(mk("(< 0 "+st.top.S+")", sortBool))
	vc.preRegister(fn)
	// parameters
	names := map[string]SVal{}
	for _, p := range fn.Params {
		v := vc.paramVal(st, p.Name(), p.Type())
		if vc.caseParam == p.Name() {
			if bits, _, ok := intInfo(p.Type()); ok {
				v = Val{T: vc.intConst(newBig(vc.caseValue), bits)}
			}
		}
		fr.args = append(fr.args, v)
		names[p.Name()] = vc.sval(v, p.Type())
	}
	for _, fv := range fn.FreeVars {
		v := vc.paramVal(st, "free!"+fv.Name(), fv.Type())
		if fr.freeVar == nil {
			fr.freeVar = map[string]Val{}
		}
		fr.freeVar[fv.Name()] = v
		names[fv.Name()] = vc.sval(v, fv.Type())
		// captured variables are held by reference: never nil; in specifications the name means the
		// captured variable's value at entry
		if v.P != nil && isPointer(fv.Type()) {
			vc.assume(st, tNot(tEq(v.P.Ref, mk("0", sortRef))))
			el := derefType(fv.Type())
			if _, isB := el.Underlying().(*types.Basic); isB {
				lv := vc.loadPlace(st, v.P)
				vc.assumeWF(st, lv, el)
				names[fv.Name()] = SVal{T: lv, GoT: el}
			} else if isPointer(el) {
				// a captured pointer variable (a method receiver, typically): the name is the pointer it holds
				lv := vc.loadPlace(st, v.P)
				vc.assumeWF(st, lv, el)
				names[fv.Name()] = vc.svalOfLoaded(lv, el)
			}
		}
	}
	var pkg *types.Package
	if vc.pkg != nil {
		pkg = vc.pkg.Pkg
	}
	entry := st.clone()
	env := &SpecEnv{vc: vc, fr: nil, st: st, old: entry, names: names, oldNames: names, pkg: pkg, ssaPkg: vc.pkg}
	env.pol = 1
	for _, r := range con.Requires {
		t := vc.evalSpecBool(env, r)
		vc.assume(st, t)
		if strings.HasSuffix(r.Label, "!init") {
			vc.trusted[res.Name+" ["+r.Label+"] "+r.Src+" (initialisation fact assumed, not checked at call sites)"] = true
		}
	}
	env.pol = 0
	// vacuity: the precondition must be satisfiable
	res.Vacuity = append(res.Vacuity, &Obligation{vc: vc, Name: res.Name + "#vacuity.pre" + vc.caseTag, Kind: "vacuity", Func: res.Name, Prefix: len(vc.out), Reach: tTrue, Goal: tFalse, Expect: "sat", Src: "precondition is satisfiable"})
	// convention for jump-table entries (functions of type executionFunc): an entry that may change the world
	// state (modifies ghost(stver), or no modifies clause) must either demand a non-static context
	// (requires [notstatic], which the table must justify by flagging the entry `writes`) or prove that it
	// leaves the state alone in a static context (ensures [static])
	if sig := fn.Signature; sig.Params().Len() == 3 && strings.HasSuffix(sig.Params().At(1).Type().String(), "vm.EVMInterpreter") && sig.Results().Len() == 2 {
		mayWrite := !con.HasMod
		for _, m := range con.Modifies {
			if strings.Contains(m.String(), "ghost(stver)") {
				mayWrite = true
			}
		}
		has := false
		for _, r := range con.Requires {
			if r.Label == "notstatic" {
				has = true
			}
		}
		for _, e := range con.Ensures {
			if e.Label == "static" {
				has = true
			}
		}
		if mayWrite && !has {
			vc.errorf("%s may change the world state but has neither 'requires [notstatic]' nor 'ensures [static]'", res.Name)
		}
	}
	if con.opt("recovers") {
		// "option recovers": no panic raised below this function may escape it. Go stops a panic only if
		// recover() is called DIRECTLY by a deferred function; the obligation is structural (decided on the SSA,
		// no solver): a defer, ahead of every other call of the entry block, of a function whose own body calls
		// the builtin recover.
		ok, why := recoversDirectly(fn)
		goal := tTrue
		if !ok {
			goal = tFalse
		}
		vc.oblige(st, fr, "recover", "direct", goal, "a deferred function of "+res.Name+" calls recover() itself, before anything that may panic ("+why+")", fn.Pos())
	}
	if gl, ok := con.Options["globals"]; ok {
		// "option globals=a,b" (or globals=none): the body of the function refers to no package-level variable other
		// than the listed ones. A structural frame obligation (decided on the SSA, no solver, usable on trusted
		// functions): a function whose result must be a function of its arguments - also when calls overlap in time -
		// may not go through shared mutable package state. Callees are not followed.
		allowed := map[string]bool{}
		for _, g := range strings.Split(gl, ",") {
			if g = strings.TrimSpace(g); g != "" && g != "none" {
				allowed[g] = true
			}
		}
		var bad []string
		seen := map[string]bool{}
		var walk func(f *ssa.Function)
		walk = func(f *ssa.Function) {
			for _, b := range f.Blocks {
				for _, in := range b.Instrs {
					for _, op := range in.Operands(nil) {
						if op == nil || *op == nil {
							continue
						}
						if g, ok := (*op).(*ssa.Global); ok && !seen[g.Name()] {
							seen[g.Name()] = true
							if g.Pkg == fn.Pkg && !allowed[g.Name()] && !strings.HasPrefix(g.Name(), "init$") {
								bad = append(bad, g.Name())
							} else if g.Pkg != fn.Pkg && !allowed[g.Pkg.Pkg.Name()+"."+g.Name()] {
								bad = append(bad, g.Pkg.Pkg.Name()+"."+g.Name())
							}
						}
					}
				}
			}
			for _, af := range f.AnonFuncs {
				walk(af)
			}
		}
		walk(fn)
		sort.Strings(bad)
		goal := tTrue
		if len(bad) > 0 {
			goal = tFalse
		}
		vc.oblige(st, fr, "reentrant", "globals", goal, res.Name+" refers to no package-level variable other than {"+gl+"}"+map[bool]string{true: "", false: " (found: " + strings.Join(bad, ", ") + ")"}[len(bad) == 0], fn.Pos())
	}
	if con.opt("trusted") {
		return res
	}
	fr.entrySt = st
	// frame bookkeeping for loops: which references may be written
	vc.topEntry = st.top
	vc.modRefs, vc.modWhole = map[string][]Term{}, map[string]bool{}
	if con.HasMod {
		vc.frameOn = true
		menv := *env
		for _, m := range con.Modifies {
			func() {
				defer func() {
					if r := recover(); r != nil {
						if _, ok := r.(specErr); ok {
							return
						}
						panic(r)
					}
				}()
				t := vc.modTarget(&menv, m)
				switch t.kind {
				case "place":
					if t.place.Kind == BPtr || t.place.Kind == BArr {
						vc.modRefs[t.place.Comp] = append(vc.modRefs[t.place.Comp], t.place.Ref)
					}
				case "arr":
					c := vc.tgtArrComp(t)
					vc.modRefs[c] = append(vc.modRefs[c], t.ref)
				case "comp":
					vc.modWhole[t.comp] = true
				}
			}()
		}
	}
	exit, rets := vc.runBody(fr, st)
	// cover: some exit is reachable
	res.Vacuity = append(res.Vacuity, &Obligation{vc: vc, Name: res.Name + "#vacuity.exit" + vc.caseTag, Kind: "vacuity", Func: res.Name, Prefix: len(vc.out), Reach: exit.reach, Goal: tFalse, Expect: "sat", Src: "a normal return is reachable"})
	// postconditions
	post := &SpecEnv{vc: vc, st: exit, old: fr.entrySt0(), names: map[string]SVal{}, oldNames: names, pkg: pkg, ssaPkg: vc.pkg}
	for k, v := range names {
		post.names[k] = v
	}
	sig := fn.Signature
	rn := resultNames(sig)
	for i, r := range rets {
		sv := vc.sval(r, sig.Results().At(i).Type())
		post.names[rn[i]] = sv
		post.names[fmt.Sprintf("result%d", i)] = sv
		if len(rets) == 1 {
			post.names["result"] = sv
		}
	}
	for i, e := range con.Ensures {
		// a clause to be proved sits in negative position: an existential in its antecedent is then an
		// assumption and gets witnesses (skolem constants)
		post.pol = -1
		t := vc.evalSpecBool(post, e)
		post.pol = 0
		lbl := e.Label
		if lbl == "" {
			lbl = fmt.Sprint(i)
		}
		// a clause labelled "...!assumed" is part of the contract callers rely on but is not checked against
		// the body (it describes code outside the verifier's reach); it is reported as an assumption
		if strings.HasSuffix(lbl, "!onpanic") {
			continue // checked where the function panics (instr.go), not at its normal exit
		}
		if strings.HasSuffix(lbl, "!assumed") {
			vc.trusted[res.Name+" ["+lbl+"] "+e.Src+" (clause assumed, not proved)"] = true
			continue
		}
		// cover: the antecedent of an implication must be reachable, otherwise the clause is proved vacuously
		if e.Expr.Op == "bin" && e.Expr.Name == "==>" && !strings.Contains(lbl, "!slow") {
			n0 := len(vc.out)
			ant := vc.evalSpecBool(post, &Clause{Consts: e.Consts, Label: e.Label, Src: e.Src, Expr: e.Expr.Args[0], File: e.File, Line: e.Line})
			res.Vacuity = append(res.Vacuity, &Obligation{vc: vc, Name: res.Name + "#vacuity.post@" + lbl + vc.caseTag, Kind: "vacuity", Func: res.Name, Prefix: len(vc.out), Reach: tAnd(exit.reach, ant), Goal: tFalse, Expect: "sat", Src: "antecedent of [" + lbl + "] is reachable"})
			_ = n0
		}
		// postconditions are independent obligations: do not assume earlier ones for later ones
		o := vc.obligeNoAssume(exit, fr, "post", lbl, t, e.Src)
		_ = o
	}
	// frame
	if con.HasMod {
		vc.checkFrame(fr, exit, fr.entrySt0(), con, post)
	}
	return res
}

func (fr *Frame) entrySt0() *State { return fr.entrySt }

func dedupe(xs []string) []string {
	seen := map[string]bool{}
	var out []string
	for _, x := range xs {
		if !seen[x] {
			seen[x] = true
			out = append(out, x)
		}
	}
	return out
}

func (vc *VC) obligeNoAssume(st *State, fr *Frame, kind, tag string, goal Term, src string) *Obligation {
	n := len(vc.out)
	o := vc.oblige(st, fr, kind, tag, goal, src, 0)
	vc.out = vc.out[:n]
	return o
}

// paramVal makes the symbolic value of a parameter and records it as a model input.
func (vc *VC) paramVal(st *State, name string, t types.Type) Val {
	s := vc.sortOf(t)
	n := smtIdent("in!" + name)
	vc.emit(fmt.Sprintf("(declare-const %s %s)", n, s.Name))
	term := mk(n, s)
	vc.assumeWF(st, term, t)
	vc.inputs = append(vc.inputs, ModelVar{Name: name, SMT: n, Type: typeKey(t)})
	return vc.mkVal(term, t)
}

// preRegister declares heap components for the types a function mentions, so that merges after
// havoc calls keep them.
func (vc *VC) preRegister(fn *ssa.Function) {
	seen := map[string]bool{}
	reg := func(t types.Type) {
		k := typeKey(t)
		if seen[k] {
			return
		}
		seen[k] = true
		switch u := t.Underlying().(type) {
		case *types.Pointer:
			el := u.Elem()
			if a, ok := el.Underlying().(*types.Array); ok && !isU256(el) {
				vc.arrComp(a.Elem())
			} else {
				if _, isIface := el.Underlying().(*types.Interface); !isIface {
					vc.ptrComp(el)
				}
			}
		case *types.Slice:
			vc.arrComp(u.Elem())
		}
	}
	for _, p := range fn.Params {
		reg(p.Type())
	}
	for _, b := range fn.Blocks {
		for _, ins := range b.Instrs {
			if v, ok := ins.(ssa.Value); ok {
				reg(v.Type())
			}
		}
	}
}

// checkFrame proves that everything outside the modifies clause is unchanged at exit.
func (vc *VC) checkFrame(fr *Frame, exit, entry *State, con *Contract, env *SpecEnv) {
	if con.Options["frame"] == "assumed" {
		// the modifies clause is what callers rely on; it is not checked against the body (the body calls code
		// outside the verifier's reach, e.g. curve arithmetic on local buffers) and is reported as an assumption
		var ms []string
		for _, m := range con.Modifies {
			ms = append(ms, m.String())
		}
		if len(ms) == 0 {
			ms = []string{"nothing"}
		}
		vc.trusted[funcKey(fr.fn)+" modifies "+strings.Join(ms, ", ")+" (frame assumed, not proved)"] = true
		return
	}
	// allowed targets, evaluated in the entry state
	pre := *env
	pre.st = entry
	pre.inOld = true
	type allow struct {
		t modTgt
	}
	byComp := map[string][]modTgt{}
	for _, m := range con.Modifies {
		func() {
			defer func() {
				if r := recover(); r != nil {
					if se, ok := r.(specErr); ok {
						vc.errorf("%s:%d: modifies %s: %s", shortPath(con.File), con.Line, m, se.msg)
						return
					}
					panic(r)
				}
			}()
			t := vc.modTarget(&pre, m)
			if os.Getenv("GOVC_DEBUG") != "" {
				fmt.Fprintf(os.Stderr, "DEBUG modTarget %s -> %s %s\n", m, t.kind, t.comp)
			}
			switch t.kind {
			case "place":
				byComp[t.place.Comp] = append(byComp[t.place.Comp], t)
			case "arr":
				byComp[vc.tgtArrComp(t)] = append(byComp[vc.tgtArrComp(t)], t)
			case "comp":
				byComp[t.comp] = append(byComp[t.comp], t)
			}
		}()
	}
	var comps []string
	for k := range vc.compSort {
		comps = append(comps, k)
	}
	sort.Strings(comps)
	for _, comp := range comps {
		if strings.HasPrefix(comp, "L:") || strings.HasPrefix(comp, "GC:") || strings.HasPrefix(comp, "B:") {
			continue
		}
		h1 := vc.heapGet(exit.heap, comp)
		h0 := vc.heapGet(entry.heap, comp)
		if h1.S == h0.S {
			continue
		}
		tg := byComp[comp]
		whole := false
		for _, t := range tg {
			if t.kind == "comp" {
				whole = true
			}
		}
		if whole {
			continue
		}
		tag := strings.ReplaceAll(comp, " ", "")
		if strings.HasPrefix(comp, "G:") || strings.HasPrefix(comp, "GH:") && vc.compSort[comp].K != SArray {
			if len(tg) > 0 {
				continue
			}
			vc.obligeNoAssume(exit, fr, "frame", tag, tEq(h1, h0), "global "+comp+" unchanged")
			continue
		}
		// per reference: forall r < top0. r not allowed => h1[r] == h0[r]; allowed places: other parts equal
		r := mk("|q!r|", sortRef)
		var excl []Term
		var partial []Term
		for _, t := range tg {
			switch t.kind {
			case "arr":
				excl = append(excl, tEq(r, t.ref))
			case "place":
				if len(t.place.Path) == 0 {
					excl = append(excl, tEq(r, t.place.Ref))
				} else {
					// object at ref may change only at this path: h1[ref] == update(h0[ref], path, h1-value-at-path)
					excl = append(excl, tEq(r, t.place.Ref))
					partial = append(partial, vc.partialFrame(exit, entry, t.place, tg))
				}
			}
		}
		body := tImp(tAnd(mk(fmt.Sprintf("(and (<= 0 %s) (< %s %s))", r.S, r.S, entry.top.S), sortBool), tNot(tOr(excl...))),
			tEq(tSelect(h1, r), tSelect(h0, r)))
		goal := mk(fmt.Sprintf("(forall ((%s Int)) %s)", r.S, body.S), sortBool)
		goal = tAnd(append([]Term{goal}, partial...)...)
		vc.obligeNoAssume(exit, fr, "frame", tag, goal, "only the modifies targets of "+comp+" change")
	}
}

// partialFrame: the object holding place p changed at most at the listed paths of the same object.
func (vc *VC) partialFrame(exit, entry *State, p *Place, all []modTgt) Term {
	root := &Place{Kind: p.Kind, Comp: p.Comp, Ref: p.Ref, Root: p.Root, Typ: p.Root}
	o0 := vc.rootTerm(entry, root)
	o1 := vc.rootTerm(exit, root)
	// write the exit values of all allowed paths of this object into the entry object; must equal exit object
	acc := o0
	for _, t := range all {
		if t.kind != "place" || t.place.Ref.S != p.Ref.S || len(t.place.Path) == 0 {
			continue
		}
		v := o1
		for _, e := range t.place.Path {
			v = vc.project(v, e)
		}
		acc = vc.update(acc, t.place.Path, v)
	}
	return tEq(o1, acc)
}

// recoversDirectly reports whether fn defers, before any other call, a function literal or function whose body
// contains a direct call of the builtin recover (the only form in which recover stops a panic).
func recoversDirectly(fn *ssa.Function) (bool, string) {
	if len(fn.Blocks) == 0 {
		return false, "no body"
	}
	callsRecover := func(f *ssa.Function) bool {
		for _, b := range f.Blocks {
			for _, ins := range b.Instrs {
				if c, ok := ins.(*ssa.Call); ok {
					if bi, ok := c.Call.Value.(*ssa.Builtin); ok && bi.Name() == "recover" {
						return true
					}
				}
			}
		}
		return false
	}
	// calls allowed ahead of the defer: taking the party's lock (they do not run message handlers)
	for _, ins := range fn.Blocks[0].Instrs {
		switch x := ins.(type) {
		case *ssa.Defer:
			var target *ssa.Function
			switch v := x.Call.Value.(type) {
			case *ssa.MakeClosure:
				target, _ = v.Fn.(*ssa.Function)
			case *ssa.Function:
				target = v
			}
			if target != nil && callsRecover(target) {
				return true, "found in " + target.Name()
			}
			if target != nil {
				return false, "the deferred function " + target.Name() + " does not call recover() itself"
			}
		case *ssa.Call:
			if callee := x.Call.StaticCallee(); callee != nil && (strings.HasSuffix(callee.Name(), "lock") || strings.HasSuffix(callee.Name(), "Lock")) {
				continue
			}
			return false, "a call precedes the recovering defer"
		case *ssa.Go:
			return false, "a go statement precedes the recovering defer"
		}
	}
	return false, "no recovering defer in the entry block"
}
