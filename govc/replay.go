package main

import (
	"bytes"
	"sort"
	"encoding/json"
	"fmt"
	"go/types"
	"math/big"
	"os"
	"os/exec"
	"path/filepath"
	"regexp"
	"strings"

	"golang.org/x/tools/go/ssa"
)

// ---------------------------------------------------------------- model value extraction

// getValues asks the given solver for the values of terms under the (sat) script.
func getValues(script, solver string, terms []string, timeoutS int) (map[string]string, string) {
	dir, _ := os.MkdirTemp("", "govc-gv-")
	defer os.RemoveAll(dir)
	file := filepath.Join(dir, "q.smt2")
	q := script + "(get-value (" + strings.Join(terms, " ") + "))\n"
	os.WriteFile(file, []byte(q), 0o644)
	// the solver that found the model first, then the others
	order := []solverSpec{}
	for _, s := range solvers {
		if s.name == solver {
			order = append(order, s)
		}
	}
	for _, s := range solvers {
		if s.name != solver {
			order = append(order, s)
		}
	}
	last := "no solver"
	if timeoutS > 20 {
		timeoutS = 20
	}
	for _, s := range order {
		argv := s.args(file, timeoutS)
		cmd := exec.Command(argv[0], argv[1:]...)
		var ob bytes.Buffer
		cmd.Stdout = &ob
		cmd.Stderr = &ob
		cmd.Run()
		out := ob.String()
		last = out
		lines := strings.SplitN(out, "\n", 2)
		if strings.TrimSpace(lines[0]) != "sat" || len(lines) < 2 {
			continue
		}
		vals := map[string]string{}
		pairs := splitSexp(strings.TrimSpace(lines[1]))
		if len(pairs) == 1 {
			inner := strings.TrimSpace(pairs[0])
			inner = inner[1 : len(inner)-1]
			// solvers may re-print the term, so values are matched by position
			for i, p := range splitSexp(inner) {
				p = strings.TrimSpace(p)
				kv := splitSexp(p[1 : len(p)-1])
				if len(kv) == 2 && i < len(terms) {
					vals[terms[i]] = kv[1]
				}
			}
		}
		if len(vals) == len(terms) || len(vals) > 0 {
			return vals, out
		}
	}
	return nil, last
}

var bvDecRe = regexp.MustCompile(`^\(_ bv(\d+) (\d+)\)$`)

// parseNum parses an SMT numeral / bit-vector / negative int into a big.Int (unsigned for bit-vectors).
func parseNum(s string) (*big.Int, int, bool) {
	s = strings.TrimSpace(s)
	if strings.HasPrefix(s, "#x") {
		v, ok := new(big.Int).SetString(s[2:], 16)
		return v, 4 * (len(s) - 2), ok
	}
	if strings.HasPrefix(s, "#b") {
		v, ok := new(big.Int).SetString(s[2:], 2)
		return v, len(s) - 2, ok
	}
	if m := bvDecRe.FindStringSubmatch(s); m != nil {
		v, ok := new(big.Int).SetString(m[1], 10)
		var bits int
		fmt.Sscan(m[2], &bits)
		return v, bits, ok
	}
	if strings.HasPrefix(s, "(-") {
		inner := strings.TrimSpace(strings.TrimSuffix(strings.TrimPrefix(s, "(-"), ")"))
		v, ok := new(big.Int).SetString(inner, 10)
		if ok {
			v.Neg(v)
		}
		return v, 0, ok
	}
	v, ok := new(big.Int).SetString(s, 10)
	return v, 0, ok
}

// ConcreteVal is a replayable Go value.
type ConcreteVal struct {
	Name  string   `json:"name"`
	Type  string   `json:"type"`
	Kind  string   `json:"kind"` // int uint bool bytes string u256 nilptr error
	Int   string   `json:"int,omitempty"`
	Bool  bool     `json:"bool,omitempty"`
	Bytes []int    `json:"bytes,omitempty"`
	Str   string   `json:"str,omitempty"`
	IsNil bool     `json:"nil,omitempty"`
	ErrIs []string `json:"err_is,omitempty"`
	GoT   types.Type `json:"-"`
}

func signedVal(v *big.Int, bits int) *big.Int {
	if bits > 0 && v.Bit(bits-1) == 1 {
		return new(big.Int).Sub(v, new(big.Int).Lsh(big.NewInt(1), uint(bits)))
	}
	return v
}

const maxReplayBytes = 1 << 16

// extractInputs reads the function inputs from the solver's model.
func (vc *VC) extractInputs(ob *Obligation, fn *ssa.Function, timeoutS int) ([]ConcreteVal, string, error) {
	script := ob.Script
	var out []ConcreteVal
	entryHeap := vc.top.entrySt.heap
	// phase 1: scalars and lengths
	var terms []string
	type pend struct {
		p    *ssa.Parameter
		smt  string
		kind string
	}
	var ps []pend
	for _, p := range fn.Params {
		n := smtIdent("in!" + p.Name())
		t := p.Type()
		switch {
		case isBool(t):
			terms = append(terms, n)
			ps = append(ps, pend{p, n, "bool"})
		case isString(t):
			terms = append(terms, "(str-len "+n+")")
			ps = append(ps, pend{p, n, "string"})
		case isByteSlice(t):
			terms = append(terms, "(sl-len "+n+")", "(sl-ref "+n+")")
			ps = append(ps, pend{p, n, "bytes"})
		default:
			if _, _, ok := intInfo(t); ok {
				terms = append(terms, n)
				ps = append(ps, pend{p, n, "int"})
			} else {
				return nil, "", fmt.Errorf("parameter %s of type %s is outside the replay template", p.Name(), typeKey(t))
			}
		}
	}
	if len(terms) == 0 {
		return nil, "", nil
	}
	// prefer small inputs: bound every slice/string length, relaxing step by step
	var vals map[string]string
	var raw string
	for _, bound := range []int64{8, 64, 1024, maxReplayBytes, 0} {
		s2 := script
		if bound > 0 {
			var bs []string
			for _, p := range ps {
				switch p.kind {
				case "bytes":
					bs = append(bs, "(assert "+vc.idxLe(mk("(sl-len "+p.smt+")", vc.idxSort()), vc.idxLit(bound)).S+")")
				case "string":
					bs = append(bs, "(assert "+vc.idxLe(mk("(str-len "+p.smt+")", vc.idxSort()), vc.idxLit(bound)).S+")")
				}
			}
			if len(bs) == 0 {
				continue
			}
			s2 = strings.Replace(script, "(check-sat)\n", strings.Join(bs, "\n")+"\n(check-sat)\n", 1)
		}
		vals, raw = getValues(s2, ob.Solver, terms, timeoutS)
		if vals != nil {
			script = s2
			break
		}
	}
	if vals == nil {
		return nil, raw, fmt.Errorf("solver gave no values")
	}
	// phase 2: fix lengths, ask for contents
	var fix []string
	var terms2 []string
	for _, p := range ps {
		switch p.kind {
		case "bytes":
			lv, _, ok := parseNum(vals["(sl-len "+p.smt+")"])
			if !ok || lv.Cmp(big.NewInt(maxReplayBytes)) > 0 {
				return nil, raw, fmt.Errorf("model slice length %s not replayable", vals["(sl-len "+p.smt+")"])
			}
			fix = append(fix, fmt.Sprintf("(assert (= (sl-len %s) %s))", p.smt, vals["(sl-len "+p.smt+")"]))
			arr := tSelect(vc.heapGet(entryHeap, vc.arrComp(types.Typ[types.Uint8])), mk("(sl-ref "+p.smt+")", sortRef))
			for i := int64(0); i < lv.Int64(); i++ {
				terms2 = append(terms2, tSelect(arr, vc.idxAdd(mk("(sl-off "+p.smt+")", vc.idxSort()), vc.idxLit(i))).S)
			}
		case "string":
			lv, _, ok := parseNum(vals["(str-len "+p.smt+")"])
			if !ok || lv.Cmp(big.NewInt(maxReplayBytes)) > 0 {
				return nil, raw, fmt.Errorf("model string length not replayable")
			}
			fix = append(fix, fmt.Sprintf("(assert (= (str-len %s) %s))", p.smt, vals["(str-len "+p.smt+")"]))
			for i := int64(0); i < lv.Int64(); i++ {
				terms2 = append(terms2, fmt.Sprintf("(str-at %s %s)", p.smt, vc.idxLit(i).S))
			}
		default:
			fix = append(fix, fmt.Sprintf("(assert (= %s %s))", p.smt, vals[p.smt]))
		}
	}
	vals2 := map[string]string{}
	if len(terms2) > 0 {
		// insert the fixing assertions before (check-sat)
		s2 := strings.Replace(script, "(check-sat)\n", strings.Join(fix, "\n")+"\n(check-sat)\n", 1)
		v2, raw2 := getValues(s2, ob.Solver, append(terms2, terms...), timeoutS)
		if v2 == nil {
			return nil, raw2, fmt.Errorf("solver gave no values in phase 2")
		}
		vals2 = v2
		raw = raw2
		if os.Getenv("GOVC_DEBUG") != "" {
			fmt.Fprintf(os.Stderr, "DEBUG phase2 terms=%q\nraw=%s\nvals=%v\n", terms2, raw2, v2)
		}
		for k, v := range v2 {
			vals[k] = v
		}
	}
	for _, p := range ps {
		cv := ConcreteVal{Name: p.p.Name(), Type: types.TypeString(p.p.Type(), func(pk *types.Package) string { return pk.Name() }), GoT: p.p.Type()}
		switch p.kind {
		case "bool":
			cv.Kind, cv.Bool = "bool", vals[p.smt] == "true"
		case "int":
			v, bits, ok := parseNum(vals[p.smt])
			if !ok {
				return nil, raw, fmt.Errorf("cannot parse model value %q", vals[p.smt])
			}
			_, signed, _ := intInfo(p.p.Type())
			if signed && bits > 0 {
				v = signedVal(v, bits)
			}
			cv.Kind, cv.Int = "int", v.String()
		case "bytes":
			lv, _, _ := parseNum(vals["(sl-len "+p.smt+")"])
			rv, _, _ := parseNum(vals["(sl-ref "+p.smt+")"])
			cv.Kind = "bytes"
			cv.IsNil = rv != nil && rv.Sign() == 0
			arr := tSelect(vc.heapGet(entryHeap, vc.arrComp(types.Typ[types.Uint8])), mk("(sl-ref "+p.smt+")", sortRef))
			cv.Bytes = []int{}
			for i := int64(0); i < lv.Int64(); i++ {
				k := tSelect(arr, vc.idxAdd(mk("(sl-off "+p.smt+")", vc.idxSort()), vc.idxLit(i))).S
				b, _, ok := parseNum(vals2[k])
				if !ok {
					b = big.NewInt(0)
				}
				cv.Bytes = append(cv.Bytes, int(b.Int64()&255))
			}
		case "string":
			lv, _, _ := parseNum(vals["(str-len "+p.smt+")"])
			var sb []byte
			for i := int64(0); i < lv.Int64(); i++ {
				b, _, ok := parseNum(vals2[fmt.Sprintf("(str-at %s %s)", p.smt, vc.idxLit(i).S)])
				if !ok {
					b = big.NewInt('a')
				}
				sb = append(sb, byte(b.Int64()))
			}
			cv.Kind, cv.Str = "string", string(sb)
		}
		out = append(out, cv)
	}
	return out, raw, nil
}

// ---------------------------------------------------------------- test generation (template S1)

func goLit(cv ConcreteVal) string {
	switch cv.Kind {
	case "bool":
		return fmt.Sprint(cv.Bool)
	case "int":
		return fmt.Sprintf("%s(%s)", cv.Type, cv.Int)
	case "bytes":
		if cv.IsNil && len(cv.Bytes) == 0 {
			return "[]byte(nil)"
		}
		var ss []string
		for _, b := range cv.Bytes {
			ss = append(ss, fmt.Sprint(b))
		}
		return "[]byte{" + strings.Join(ss, ",") + "}"
	case "string":
		return fmt.Sprintf("%q", cv.Str)
	}
	return "nil"
}

type sentinelRef struct{ pkgPath, pkgName, name string }

func (vc *VC) sentinelRefs(fn *ssa.Function) []sentinelRef {
	var out []sentinelRef
	for comp := range vc.sentinelSeen {
		full := strings.TrimPrefix(comp, "GC:")
		i := strings.LastIndex(full, ".")
		if i < 0 {
			continue
		}
		pp, name := full[:i], full[i+1:]
		sp := vc.P.Pkgs[pp]
		if sp == nil {
			continue
		}
		g, ok := sp.Members[name].(*ssa.Global)
		if !ok || !vc.P.isNonNilSentinel(g) {
			continue
		}
		if _, isIface := derefType(g.Type()).Underlying().(*types.Interface); !isIface {
			continue
		}
		exported := name[0] >= 'A' && name[0] <= 'Z'
		if pp != fnPkgPath(fn) && !exported {
			continue
		}
		out = append(out, sentinelRef{pp, sp.Pkg.Name(), name})
	}
	return out
}

func (vc *VC) genTestS1(fn *ssa.Function, inputs []ConcreteVal) (string, error) {
	if fn.Signature.Recv() != nil || fn.Parent() != nil {
		return "", fmt.Errorf("methods and closures are outside replay template S1")
	}
	var b strings.Builder
	pkgName := fn.Pkg.Pkg.Name()
	sents := vc.sentinelRefs(fn)
	imports := map[string]string{"fmt": "fmt", "testing": "testing", "encoding/json": "json"}
	for _, s := range sents {
		if s.pkgPath != fnPkgPath(fn) {
			imports[s.pkgPath] = s.pkgName
		}
	}
	fmt.Fprintf(&b, "package %s\n\nimport (\n", pkgName)
	for p, n := range imports {
		fmt.Fprintf(&b, "\t%s %q\n", n, p)
	}
	b.WriteString(")\n\nfunc TestVerifReplay(t *testing.T) {\n")
	b.WriteString("\tdefer func() {\n\t\tif r := recover(); r != nil {\n\t\t\tfmt.Printf(\"VERIF-PANIC: %v\\n\", r)\n\t\t}\n\t}()\n")
	var args []string
	for i, in := range inputs {
		fmt.Fprintf(&b, "\ta%d := %s\n", i, goLit(in))
		args = append(args, fmt.Sprintf("a%d", i))
	}
	res := fn.Signature.Results()
	var rs []string
	for i := 0; i < res.Len(); i++ {
		rs = append(rs, fmt.Sprintf("r%d", i))
	}
	call := fmt.Sprintf("%s(%s)", fn.Name(), strings.Join(args, ", "))
	if len(rs) > 0 {
		fmt.Fprintf(&b, "\t%s := %s\n", strings.Join(rs, ", "), call)
	} else {
		fmt.Fprintf(&b, "\t%s\n", call)
	}
	b.WriteString("\tout := []map[string]interface{}{}\n")
	rn := resultNames(fn.Signature)
	for i := 0; i < res.Len(); i++ {
		t := res.At(i).Type()
		switch {
		case isBool(t):
			fmt.Fprintf(&b, "\tout = append(out, map[string]interface{}{\"name\": %q, \"kind\": \"bool\", \"bool\": r%d})\n", rn[i], i)
		case isString(t):
			fmt.Fprintf(&b, "\tout = append(out, map[string]interface{}{\"name\": %q, \"kind\": \"string\", \"str\": r%d})\n", rn[i], i)
		case isByteSlice(t):
			fmt.Fprintf(&b, "\t{ bs := []int{}; for _, x := range r%d { bs = append(bs, int(x)) }; out = append(out, map[string]interface{}{\"name\": %q, \"kind\": \"bytes\", \"bytes\": bs, \"nil\": r%d == nil}) }\n", i, rn[i], i)
		case types.Identical(t, types.Universe.Lookup("error").Type()):
			fmt.Fprintf(&b, "\t{ is := []string{}\n")
			for _, s := range sents {
				q := s.name
				if s.pkgPath != fnPkgPath(fn) {
					q = s.pkgName + "." + s.name
				}
				fmt.Fprintf(&b, "\t  if r%d == %s { is = append(is, %q) }\n", i, q, s.pkgPath+"."+s.name)
			}
			fmt.Fprintf(&b, "\t  out = append(out, map[string]interface{}{\"name\": %q, \"kind\": \"error\", \"nil\": r%d == nil, \"err_is\": is}) }\n", rn[i], i)
		default:
			if _, sg, ok := intInfo(t); ok {
				conv := "uint64"
				if sg {
					conv = "int64"
				}
				fmt.Fprintf(&b, "\tout = append(out, map[string]interface{}{\"name\": %q, \"kind\": \"int\", \"int\": fmt.Sprint(%s(r%d))})\n", rn[i], conv, i)
			} else {
				return "", fmt.Errorf("result %d of type %s is outside replay template S1", i, typeKey(t))
			}
		}
	}
	b.WriteString("\tj, _ := json.Marshal(out)\n\tfmt.Printf(\"VERIF-RESULT: %s\\n\", j)\n}\n")
	return b.String(), nil
}

// runOverlayTest runs an in-package test injected by overlay; nothing is written into the repo.
func runOverlayTest(repo, pkgDir, src string) (string, error) {
	scratch, err := os.MkdirTemp("", "govc-replay-")
	if err != nil {
		return "", err
	}
	defer os.RemoveAll(scratch)
	testFile := filepath.Join(scratch, "zz_verif_replay_test.go")
	os.WriteFile(testFile, []byte(src), 0o644)
	ov := map[string]map[string]string{"Replace": {filepath.Join(repo, pkgDir, "zz_verif_replay_test.go"): testFile}}
	// NTP: utility.GetTime blocks offline; replace time.go by a copy with the NTP branch disabled
	tsrc, err := os.ReadFile(filepath.Join(repo, "src/utility/time.go"))
	if err == nil {
		patched := strings.Replace(string(tsrc), "if !ntpInitFlag {", "if false && !ntpInitFlag {", 1)
		pf := filepath.Join(scratch, "time_patched.go")
		os.WriteFile(pf, []byte(patched), 0o644)
		ov["Replace"][filepath.Join(repo, "src/utility/time.go")] = pf
	}
	ovb, _ := json.Marshal(ov)
	ovf := filepath.Join(scratch, "overlay.json")
	os.WriteFile(ovf, ovb, 0o644)
	cmd := exec.Command("go", "test", "-overlay", ovf, "-v", "-vet=off", "-count=1", "-timeout", "60s", "-run", "^TestVerifReplay$", "./"+pkgDir)
	cmd.Dir = repo
	cmd.Env = append(os.Environ(), "GOFLAGS=-mod=mod", "GOPROXY=off", "GOSUMDB=off", "GOTOOLCHAIN=local", "VERIF_SCRATCH="+scratch)
	var ob bytes.Buffer
	cmd.Stdout = &ob
	cmd.Stderr = &ob
	err = cmd.Run()
	return ob.String(), err
}

// ---------------------------------------------------------------- concrete evaluation of a postcondition

// evalPostConcrete decides whether the named ensures clause is violated by concrete inputs/outputs.
func (P *Prog) evalPostConcrete(fn *ssa.Function, con *Contract, clauseSrc string, inputs, outputs []ConcreteVal, timeoutS int) (string, string) {
	vc := newVC(P, fn, modeOf(con))
	st := &State{reach: tTrue, heap: &Heap{known: map[string]Term{}, ep: vc.newEpoch()}, chk: map[string]bool{}}
	st.top = mk("1000000", sortRef)
	nextRef := int64(1000)
	names := map[string]SVal{}
	bind := func(cv ConcreteVal, t types.Type) (SVal, bool) {
		switch cv.Kind {
		case "bool":
			if cv.Bool {
				return SVal{T: tTrue, GoT: t}, true
			}
			return SVal{T: tFalse, GoT: t}, true
		case "int":
			v, okp := new(big.Int).SetString(cv.Int, 10)
			if !okp {
				return SVal{}, false
			}
			bits, _, _ := intInfo(t)
			return SVal{T: vc.intConst(v, bits), GoT: t}, true
		case "bytes":
			nextRef++
			ref := refLit(nextRef)
			if cv.IsNil {
				ref = refLit(0)
			}
			comp := vc.arrComp(types.Typ[types.Uint8])
			arrS := sortArray(vc.idxSort(), vc.intSort(8))
			arr := mk(fmt.Sprintf("((as const %s) %s)", arrS.Name, vc.intConst(big.NewInt(0), 8).S), arrS)
			for i, b := range cv.Bytes {
				arr = tStore(arr, vc.idxLit(int64(i)), vc.intConst(big.NewInt(int64(b)), 8))
			}
			h := vc.heapGet(st.heap, comp)
			st.heap.known[comp] = vc.define(comp, tStore(h, ref, arr))
			n := vc.idxLit(int64(len(cv.Bytes)))
			return SVal{T: vc.mkSlice(ref, vc.idxLit(0), n, n), GoT: t}, true
		case "string":
			return SVal{T: vc.strLit(cv.Str), GoT: t}, true
		case "error":
			if cv.IsNil {
				return SVal{T: mk("(mk-iface 0 0)", sortIface), GoT: t}, true
			}
			e := vc.declFresh("err", sortIface)
			vc.assumeGlobal(mk(fmt.Sprintf("(and (> (ityp %s) 0) (> (iref %s) 0))", e.S, e.S), sortBool))
			return SVal{T: e, GoT: t}, true
		}
		return SVal{}, false
	}
	for i, p := range fn.Params {
		if i >= len(inputs) {
			return "error", "missing input"
		}
		sv, ok := bind(inputs[i], p.Type())
		if !ok {
			return "error", "unsupported input kind"
		}
		names[p.Name()] = sv
	}
	entry := st.clone()
	env := &SpecEnv{vc: vc, st: st, old: entry, names: map[string]SVal{}, oldNames: names, pkg: fn.Pkg.Pkg, ssaPkg: fn.Pkg}
	for k, v := range names {
		env.names[k] = v
	}
	rn := resultNames(fn.Signature)
	res := fn.Signature.Results()
	var errVals []struct {
		t  Term
		is []string
	}
	for i := 0; i < res.Len(); i++ {
		if i >= len(outputs) {
			return "error", "missing output"
		}
		sv, ok := bind(outputs[i], res.At(i).Type())
		if !ok {
			return "error", "unsupported output kind"
		}
		env.names[rn[i]] = sv
		env.names[fmt.Sprintf("result%d", i)] = sv
		if res.Len() == 1 {
			env.names["result"] = sv
		}
		if outputs[i].Kind == "error" && !outputs[i].IsNil {
			errVals = append(errVals, struct {
				t  Term
				is []string
			}{sv.T, outputs[i].ErrIs})
		}
	}
	var clause *Clause
	for _, e := range con.Ensures {
		if e.Src == clauseSrc {
			clause = e
		}
	}
	if clause == nil {
		return "error", "clause not found"
	}
	t := vc.evalSpecBool(env, clause)
	if len(vc.errs) > 0 {
		return "error", strings.Join(vc.errs, "; ")
	}
	// relate non-nil errors to the sentinels that were seen during evaluation
	for comp := range vc.sentinelSeen {
		c := vc.epochGet(vc.constEpoch, comp)
		if c.T.K != SIface {
			continue
		}
		full := strings.TrimPrefix(comp, "GC:")
		for _, ev := range errVals {
			eq := false
			for _, n := range ev.is {
				if n == full {
					eq = true
				}
			}
			if eq {
				vc.assumeGlobal(tEq(ev.t, c))
			} else {
				vc.assumeGlobal(tNot(tEq(ev.t, c)))
			}
		}
	}
	ob := &Obligation{Name: "replay-eval", Prefix: len(vc.out), Reach: tTrue, Goal: t, Expect: "unsat"}
	script := vc.script(ob)
	dir, _ := os.MkdirTemp("", "govc-ev-")
	defer os.RemoveAll(dir)
	r := runSolvers(script, dir, "eval", timeoutS, false, "unsat")
	return r.result, r.out
}

// ---------------------------------------------------------------- putting it together

func makeReplay(o *runOpts, P *Prog, r *FuncResult, ob *Obligation) *ReplayFile {
	rp := &ReplayFile{Property: o.property, Obligation: ob.Name, Function: r.Name, Clause: ob.Src, Result: ob.Result, Solver: ob.Solver, Output: ob.Output, Model: ob.Model}
	if ob.Pos.IsValid() {
		rp.Position = fmt.Sprintf("%s:%d", shortPath(ob.Pos.Filename), ob.Pos.Line)
	}
	// keep the query next to the replay file
	sf := filepath.Join(o.replayDir, o.property, sanitizeFile(ob.Name)+".smt2")
	os.MkdirAll(filepath.Dir(sf), 0o755)
	os.WriteFile(sf, []byte(ob.Script), 0o644)
	rp.Script = sf
	if ob.Result != "sat" {
		rp.Verdict = "no-model"
		return rp
	}
	if o.noReplay {
		rp.Verdict = "replay-unavailable"
		return rp
	}
	vc := ob.vc
	fn := vc.fn
	if fn == nil || vc.top == nil || vc.top.entrySt == nil {
		rp.Verdict = "replay-unavailable"
		return rp
	}
	heap := vc.top.entrySt.heap
	// small-model search: bound all reachable slice/string lengths, relaxing step by step
	var lens []Term
	vc.scriptHeader = ob.Script
	for i, p := range fn.Params {
		if i < len(vc.top.args) {
			vc.boundTerms(vc.valTermQuiet(vc.top.args[i]), p.Type(), heap, 0, &lens)
		}
	}
	if os.Getenv("GOVC_DEBUG") != "" {
		fmt.Fprintf(os.Stderr, "small-model length terms for %s: %v\n", ob.Name, lens)
	}
	script := ob.Script
	// prefer a model in which opaque specification functions have their real definitions
	if len(vc.opaqueDefs) > 0 {
		rs := ob.Script
		for d, def := range vc.opaqueDefs {
			rs = strings.Replace(rs, d+"\n", def+"\n", 1)
		}
		if vals, _ := getValues(rs, ob.Solver, []string{"true"}, o.timeout); vals != nil {
			script = rs
		}
	}
	base := script
	if len(lens) > 0 {
		for _, bound := range []int64{8, 64, 1024, maxReplayElems} {
			var bs []string
			for _, l := range lens {
				bs = append(bs, "(assert "+vc.idxLe(l, vc.idxLit(bound)).S+")")
				if vc.mode == ModeMath {
					bs = append(bs, "(assert (<= 0 "+l.S+"))")
				}
			}
			s2 := strings.Replace(base, "(check-sat)\n", strings.Join(bs, "\n")+"\n(check-sat)\n", 1)
			if vals, _ := getValues(s2, ob.Solver, []string{"true"}, o.timeout); vals != nil {
				script = s2
				break
			}
		}
	}
	x := &extractor{vc: vc, ob: ob, script: script, timeout: o.timeout, heap: heap}
	// fork flags of the model
	vc.flagValues = map[string]bool{}
	for _, name := range vc.flagsUsed {
		n := smtIdent("flag!" + name)
		vc.flagValues[name] = x.values([]string{n})[n] == "true"
	}
	var inputs, frees []*CV
	for i, p := range fn.Params {
		if i >= len(vc.top.args) {
			break
		}
		inputs = append(inputs, x.extract(vc.valTermQuiet(vc.top.args[i]), p.Type(), 0))
	}
	for _, fv := range fn.FreeVars {
		v := vc.top.freeVar[fv.Name()]
		if v.P != nil {
			el := derefType(fv.Type())
			t := vc.loadPlace(vc.top.entrySt, v.P)
			frees = append(frees, x.extract(t, el, 0))
		} else {
			frees = append(frees, x.extract(v.T, fv.Type(), 0))
		}
	}
	// package-level variables the function reads (configuration such as model.Param): set as in the model
	vc.globalInits = nil
	var gcomps []string
	for comp := range vc.compSort {
		if strings.HasPrefix(comp, "G:") || strings.HasPrefix(comp, "GC:") {
			gcomps = append(gcomps, comp)
		}
	}
	sort.Strings(gcomps)
	for _, comp := range gcomps {
		full := strings.TrimPrefix(strings.TrimPrefix(comp, "GC:"), "G:")
		i := strings.LastIndex(full, ".")
		if i < 0 {
			continue
		}
		sp := P.Pkgs[full[:i]]
		if sp == nil {
			continue
		}
		g, ok := sp.Members[full[i+1:]].(*ssa.Global)
		if !ok {
			continue
		}
		gt := derefType(g.Type())
		switch gt.Underlying().(type) {
		case *types.Struct, *types.Basic:
		default:
			continue
		}
		if isBigInt(gt) || isBigRat(gt) || hasLock(gt) {
			continue
		}
		exported := g.Name()[0] >= 'A' && g.Name()[0] <= 'Z'
		if sp != vc.pkg && !exported {
			continue
		}
		if !strings.Contains(script, smtIdent(comp+"!e")) && !strings.Contains(script, comp+"!e") {
			continue
		}
		var term Term
		if strings.HasPrefix(comp, "GC:") {
			term = vc.epochGet(vc.constEpoch, comp)
		} else {
			term = vc.heapGet(heap, comp)
		}
		cv := x.extract(term, gt, 1)
		if x.err != nil {
			break
		}
		vc.globalInits = append(vc.globalInits, globalInit{pkg: sp.Pkg, name: g.Name(), typ: gt, cv: cv})
	}
	if x.err != nil {
		rp.Verdict = "replay-unavailable"
		rp.TestOutput = "input extraction: " + x.err.Error() + "\n" + x.raw
		return rp
	}
	gl := map[string]*CV{}
	for _, gi := range vc.globalInits {
		gl[gi.pkg.Name()+"."+gi.name] = gi.cv
	}
	rp.Inputs = map[string]interface{}{"params": inputs, "free_vars": frees, "fork_flags": vc.flagValues, "globals": gl}
	src, err := vc.genTestS2(fn, inputs, frees)
	if err != nil {
		rp.Verdict = "replay-unavailable"
		rp.TestOutput = err.Error()
		return rp
	}
	rp.TestSource = src
	pkgDir, _ := filepath.Rel(modulePath, fnPkgPath(fn))
	out, _ := runOverlayTest(o.repo, pkgDir, src)
	if len(out) > 6000 {
		out = out[:3000] + "\n...\n" + out[len(out)-3000:]
	}
	rp.TestOutput = out
	panicked := strings.Contains(out, "VERIF-PANIC:") || strings.Contains(out, "panic:")
	if strings.Contains(out, "[build failed]") || strings.Contains(out, "[setup failed]") {
		rp.Verdict = "replay-unavailable"
		return rp
	}
	if panicked {
		// inputs the harness could not build (interface and function values become nil) make a panic of the
		// replay meaningless: it may come from the harness, not from the code
		for _, in := range inputs {
			if cvHasUnsupported(in) {
				rp.Verdict = "replay-unavailable"
				rp.TestOutput += "\nreplay panicked, but some inputs could not be constructed (interface/function values): not counted as a reproduction\n"
				return rp
			}
		}
	}
	switch {
	case ob.Kind == "post":
		if panicked {
			rp.Verdict = "reproduced"
			return rp
		}
		i := strings.Index(out, "VERIF-RESULT: ")
		if i < 0 {
			rp.Verdict = "not-reproduced"
			return rp
		}
		line := out[i+len("VERIF-RESULT: "):]
		if j := strings.Index(line, "\n"); j >= 0 {
			line = line[:j]
		}
		var dump struct {
			Results []*CV `json:"results"`
			Post    []*CV `json:"post"`
		}
		if json.Unmarshal([]byte(line), &dump) != nil {
			rp.Verdict = "not-reproduced"
			return rp
		}
		res, eo := P.evalPostConcrete2(fn, r.Contract, ob.Src, inputs, dump.Post, dump.Results, frees, vc.flagValues, vc.globalInits, o.timeout)
		rp.TestOutput += "\npostcondition evaluated on the observed pre/post state: negation is " + res + "\n" + eo
		if res == "sat" {
			rp.Verdict = "reproduced"
		} else {
			rp.Verdict = "not-reproduced"
		}
	default:
		if panicked {
			rp.Verdict = "reproduced"
			return rp
		}
		rp.Verdict = "not-reproduced"
		if ob.Kind == "safe.overflow" || ob.Kind == "safe.conv" {
			// silent wrap-around does not panic: it is reproduced if the real run violates a postcondition
			i := strings.Index(out, "VERIF-RESULT: ")
			if i < 0 {
				return rp
			}
			line := out[i+len("VERIF-RESULT: "):]
			if j := strings.Index(line, "\n"); j >= 0 {
				line = line[:j]
			}
			var dump struct {
				Results []*CV `json:"results"`
				Post    []*CV `json:"post"`
			}
			if json.Unmarshal([]byte(line), &dump) != nil {
				return rp
			}
			for _, e := range r.Contract.Ensures {
				res, _ := P.evalPostConcrete2(fn, r.Contract, e.Src, inputs, dump.Post, dump.Results, frees, vc.flagValues, vc.globalInits, o.timeout)
				if res == "sat" {
					rp.TestOutput += "\nobserved run violates postcondition: " + e.Src
					rp.Verdict = "reproduced"
					return rp
				}
			}
		}
	}
	return rp
}

// valTermQuiet converts an argument value to its SMT term without reporting errors.
func (vc *VC) valTermQuiet(v Val) Term {
	if v.P != nil {
		if (v.P.Kind == BPtr || v.P.Kind == BArr) && len(v.P.Path) == 0 {
			return v.P.Ref
		}
		return mk("0", sortRef)
	}
	return v.T
}

// outsideClass re-checks a failing obligation with the known finding's input class excluded.
func (vc *VC) outsideClass(ob *Obligation, class string, o *runOpts) string {
	e, err := parseSpec(class)
	if err != nil {
		return "error"
	}
	fn := vc.fn
	names := map[string]SVal{}
	for i, p := range fn.Params {
		if i < len(vc.top.args) {
			names[p.Name()] = vc.sval(vc.top.args[i], p.Type())
		}
	}
	for name, v := range vc.top.freeVar {
		names[name] = SVal{T: v.T, P: v.P}
	}
	for tag, ks := range vc.commuteKeys {
		if strings.Contains(ob.Name, "#commute.") && strings.Contains(ob.Name+".", tag) {
			names["key1"] = vc.sval(ks[0], vc.commuteKeyT[tag])
			names["key2"] = vc.sval(ks[1], vc.commuteKeyT[tag])
		}
	}
	var pkg *types.Package
	if vc.pkg != nil {
		pkg = vc.pkg.Pkg
	}
	st := vc.top.entrySt
	env := &SpecEnv{vc: vc, st: st, old: st, names: names, oldNames: names, pkg: pkg, ssaPkg: vc.pkg}
	saved := len(vc.out)
	t := vc.evalSpecBool(env, &Clause{Src: class, Expr: e})
	extra := vc.out[saved:]
	vc.out = vc.out[:saved]
	script := strings.Replace(ob.Script, "(check-sat)\n", strings.Join(extra, "\n")+"\n(assert (not "+t.S+"))\n(check-sat)\n", 1)
	dir, _ := os.MkdirTemp("", "govc-class-")
	defer os.RemoveAll(dir)
	r := runSolvers(script, dir, "class", o.timeout, false, "unsat")
	return r.result
}

func cvHasUnsupported(c *CV) bool {
	if c == nil {
		return false
	}
	if c.Kind == "unsupported" {
		return true
	}
	for _, e := range c.Elems {
		if cvHasUnsupported(e) {
			return true
		}
	}
	for _, e := range c.Fields {
		if cvHasUnsupported(e) {
			return true
		}
	}
	return cvHasUnsupported(c.Ptr)
}
