package main

import (
	"flag"
	"fmt"
	"os"
	"path/filepath"
	"runtime"
	"sort"
	"strings"
	"time"

	"golang.org/x/tools/go/ssa"
)

func main() {
	if len(os.Args) < 2 {
		fmt.Fprintln(os.Stderr, "usage: govc verify|dump ...")
		os.Exit(2)
	}
	switch os.Args[1] {
	case "verify":
		os.Exit(cmdVerify(os.Args[2:]))
	default:
		fmt.Fprintln(os.Stderr, "unknown command", os.Args[1])
		os.Exit(2)
	}
}

type runOpts struct {
	repo      string
	property  string
	tier      string
	funcs     string
	dump      string
	timeout   int
	par       int
	evidence  string
	verbose   bool
	known     string
	replayDir string
	seed      int64
	noReplay  bool
}

func cmdVerify(args []string) int {
	fs := flag.NewFlagSet("verify", flag.ExitOnError)
	var o runOpts
	fs.StringVar(&o.repo, "repo", "/repo", "repository root")
	fs.StringVar(&o.property, "property", "", "property id (e.g. C08); empty = all contracts")
	fs.StringVar(&o.tier, "tier", "quick", "quick|thorough")
	fs.StringVar(&o.funcs, "func", "", "only functions whose short name contains this (comma separated)")
	fs.StringVar(&o.dump, "dump", "", "directory to keep SMT scripts")
	fs.IntVar(&o.timeout, "timeout", 0, "per-obligation solver timeout in seconds (default 10 quick / 120 thorough)")
	fs.IntVar(&o.par, "par", runtime.NumCPU()*3/4, "parallel solver jobs")
	fs.StringVar(&o.evidence, "evidence", "", "evidence file to write")
	fs.BoolVar(&o.verbose, "v", false, "verbose")
	fs.StringVar(&o.known, "known", "/verif/known_findings.jsonl", "known findings file")
	fs.StringVar(&o.replayDir, "replays", "/verif/replays", "replay directory")
	fs.BoolVar(&o.noReplay, "noreplay", false, "skip replay of counterexamples")
	fs.Int64Var(&o.seed, "seed", 0, "seed (recorded in the evidence; the proof search itself is deterministic)")
	fs.Parse(args)
	if o.timeout == 0 {
		o.timeout = 30
		if o.tier == "thorough" {
			o.timeout = 120
		}
	}
	return runVerify(&o)
}

// contractPackages scans contract files and returns the package directories that carry contracts for prop.
func contractPackages(repo, prop string) ([]string, error) {
	files, err := findContractFiles(repo)
	if err != nil {
		return nil, err
	}
	seen := map[string]bool{}
	var out []string
	for _, f := range files {
		rel, _ := filepath.Rel(repo, filepath.Dir(f))
		cf, err := parseContractFile(f, modulePath+"/"+filepath.ToSlash(rel))
		if err != nil {
			return nil, err
		}
		want := prop == ""
		for _, c := range cf.Contracts {
			for _, p := range c.Properties {
				if p == prop {
					want = true
				}
			}
		}
		for _, l := range cf.Lemmas {
			for _, p := range l.Properties {
				if p == prop {
					want = true
				}
			}
		}
		if want && !seen[rel] {
			seen[rel] = true
			out = append(out, "./"+filepath.ToSlash(rel))
		}
	}
	sort.Strings(out)
	return out, nil
}

func hasProp(ps []string, p string) bool {
	if p == "" {
		return true
	}
	for _, x := range ps {
		if x == p {
			return true
		}
	}
	return false
}

type runResult struct {
	funcs   []*FuncResult
	undecided []string
	wall    float64
}

func runVerify(o *runOpts) int {
	t0 := time.Now()
	pkgs, err := contractPackages(o.repo, o.property)
	if err != nil {
		fmt.Printf("UNDECIDED property=%s reason=%v\n", o.property, err)
		return 2
	}
	if len(pkgs) == 0 {
		fmt.Printf("UNDECIDED property=%s reason=no contracts found for this property\n", o.property)
		return 2
	}
	P, err := loadProgram(o.repo, pkgs)
	if err != nil {
		fmt.Printf("UNDECIDED property=%s reason=load failed: %v\n", o.property, err)
		return 2
	}
	if err := P.loadContracts(); err != nil {
		fmt.Printf("UNDECIDED property=%s reason=%v\n", o.property, err)
		return 2
	}
	prelude, smtSorts := P.buildPrelude()
	tLoad := time.Since(t0).Seconds()
	var results []*FuncResult
	var undecided []string
	var keys []string
	for k := range P.Contracts {
		keys = append(keys, k)
	}
	sort.Strings(keys)
	filt := strings.Split(o.funcs, ",")
	for _, k := range keys {
		c := P.Contracts[k]
		if !hasProp(c.Properties, o.property) {
			continue
		}
		if c.opt("interface") || c.Options["extern"] != "" {
			continue
		}
		fn := P.findFunc(c)
		if fn == nil {
			if P.Pkgs[c.Pkg] == nil {
				continue // package not loaded for this property
			}
			undecided = append(undecided, fmt.Sprintf("contract for %s::%s names a function that does not exist (renamed or removed?)", c.Pkg, c.Func))
			continue
		}
		if o.funcs != "" {
			match := false
			for _, f := range filt {
				if f != "" && strings.Contains(shortFuncName(fn), f) {
					match = true
				}
			}
			if !match {
				continue
			}
		}
		res := P.verifyOne(fn, c, prelude, smtSorts)
		results = append(results, res)
	}
	tGen := time.Since(t0).Seconds() - tLoad
	// solve
	dir := o.dump
	if dir == "" {
		dir, _ = os.MkdirTemp("", "govc-smt-")
		defer os.RemoveAll(dir)
	} else {
		os.MkdirAll(dir, 0o755)
	}
	var jobs []*solveJob
	for _, r := range results {
		var keep []*Obligation
		for _, ob := range r.Obls {
			ob.Property = r.Contract.Properties
			if strings.Contains(ob.Name, "!slow") && o.tier != "thorough" {
				r.SkippedSlow++
				continue
			}
			keep = append(keep, ob)
			jobs = append(jobs, &solveJob{ob.vc, ob})
		}
		r.Obls = keep
		for _, ob := range r.Vacuity {
			jobs = append(jobs, &solveJob{ob.vc, ob})
		}
	}
	noRetry = map[string]bool{}
	for _, k := range loadKnown(o.known) {
		noRetry[k.Obligation] = true // an open known finding is expected to fail: no second attempt
	}
	solveAll(jobs, dir, o.timeout, o.tier == "thorough", o.par)
	wall := time.Since(t0).Seconds()
	return report(o, P, results, undecided, tLoad, tGen, wall)
}

func (P *Prog) verifyOne(fn *ssa.Function, c *Contract, prelude []*preludeEntry, smtSorts map[string]*Sort) (res *FuncResult) {
	defer func() {
		if r := recover(); r != nil {
			if res == nil {
				res = &FuncResult{Name: shortFuncName(fn), Contract: c}
			}
			buf := make([]byte, 4096)
			n := runtime.Stack(buf, false)
			res.Errors = append(res.Errors, fmt.Sprintf("generator panic: %v\n%s", r, buf[:n]))
		}
	}()
	preludeGlobal, smtSortsGlobal = prelude, smtSorts
	return P.verifyFunction(fn, c)
}

var preludeGlobal []*preludeEntry
var smtSortsGlobal map[string]*Sort
