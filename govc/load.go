package main

import (
	"fmt"
	"go/constant"
	"go/token"
	"go/types"
	"math/big"
	"os"
	"path/filepath"
	"sort"
	"strings"

	"golang.org/x/tools/go/packages"
	"golang.org/x/tools/go/ssa"
	"golang.org/x/tools/go/ssa/ssautil"
)

const modulePath = "com.tuntun.rangers/node"

// Prog is the loaded program plus all contracts.
type Prog struct {
	Repo      string
	Fset      *token.FileSet
	SSA       *ssa.Program
	Pkgs      map[string]*ssa.Package // by package path
	TPkgs     map[string]*packages.Package
	Files     []*ContractFile
	Contracts map[string]*Contract // key: pkgpath + "::" + normalised func key
	SpecFns   map[string]*SpecFn   // by name (global namespace)
	Lemmas    []*LemmaSpec
	Ghosts    map[string]string      // ghost component name -> SMT sort text
	GhostPkg  map[string]string      // ghost component name -> declaring package path
	TypeAlias map[string]string      // spec type name -> Go type expression (map[K]V, []T, *T over named types)
	Externs   map[string][]*Contract // full callee name -> trusted contracts for functions outside the repository
	constGlob map[*ssa.Global]bool
}

func normFuncKey(k string) string {
	k = strings.TrimSpace(k)
	// (*T).m and T.m and (T).m all normalise to T.m
	k = strings.ReplaceAll(k, "(*", "")
	k = strings.ReplaceAll(k, "(", "")
	k = strings.ReplaceAll(k, ")", "")
	return k
}

// funcKey gives the normalised contract key of an ssa function.
func funcKey(fn *ssa.Function) string {
	name := fn.Name()
	if recv := fn.Signature.Recv(); recv != nil {
		t := recv.Type()
		if p, ok := t.(*types.Pointer); ok {
			t = p.Elem()
		}
		if n, ok := t.(*types.Named); ok {
			return n.Obj().Name() + "." + name
		}
	}
	if fn.Parent() != nil {
		// closure: parentKey$N  (ssa names closures parent$N)
		return funcKey(fn.Parent()) + strings.TrimPrefix(name, fn.Parent().Name())
	}
	return name
}

func fnPkgPath(fn *ssa.Function) string {
	if fn.Pkg != nil {
		return fn.Pkg.Pkg.Path()
	}
	if fn.Parent() != nil {
		return fnPkgPath(fn.Parent())
	}
	if o := fn.Object(); o != nil && o.Pkg() != nil {
		return o.Pkg().Path()
	}
	if recv := fn.Signature.Recv(); recv != nil {
		t := recv.Type()
		if p, ok := t.(*types.Pointer); ok {
			t = p.Elem()
		}
		if n, ok := t.(*types.Named); ok && n.Obj().Pkg() != nil {
			return n.Obj().Pkg().Path()
		}
	}
	return ""
}

func loadProgram(repo string, pkgPatterns []string) (*Prog, error) {
	fset := token.NewFileSet()
	cfg := &packages.Config{
		Mode:       packages.NeedName | packages.NeedFiles | packages.NeedCompiledGoFiles | packages.NeedImports | packages.NeedDeps | packages.NeedTypes | packages.NeedSyntax | packages.NeedTypesInfo | packages.NeedTypesSizes,
		Dir:        repo,
		Fset:       fset,
		BuildFlags: []string{"-tags=verif"},
		Env:        append(os.Environ(), "GOFLAGS=-mod=mod", "GOPROXY=off", "GOSUMDB=off", "GOTOOLCHAIN=local"),
	}
	pkgs, err := packages.Load(cfg, pkgPatterns...)
	if err != nil {
		return nil, err
	}
	nerr := 0
	packages.Visit(pkgs, nil, func(p *packages.Package) {
		for _, e := range p.Errors {
			if strings.HasPrefix(p.PkgPath, modulePath) {
				fmt.Fprintf(os.Stderr, "load error: %s: %v\n", p.PkgPath, e)
				nerr++
			}
		}
	})
	if nerr > 0 {
		return nil, fmt.Errorf("%d package load errors", nerr)
	}
	prog, _ := ssautil.AllPackages(pkgs, ssa.GlobalDebug|ssa.InstantiateGenerics)
	prog.Build()
	P := &Prog{Repo: repo, Fset: fset, SSA: prog, Pkgs: map[string]*ssa.Package{}, TPkgs: map[string]*packages.Package{},
		Contracts: map[string]*Contract{}, SpecFns: map[string]*SpecFn{}, constGlob: map[*ssa.Global]bool{},
		Ghosts: map[string]string{}, GhostPkg: map[string]string{}, Externs: map[string][]*Contract{}, TypeAlias: map[string]string{}}
	for _, p := range prog.AllPackages() {
		P.Pkgs[p.Pkg.Path()] = p
	}
	packages.Visit(pkgs, nil, func(p *packages.Package) { P.TPkgs[p.PkgPath] = p })
	return P, nil
}

// loadContracts reads every contract file in the repo (all packages, not only loaded ones).
func (P *Prog) loadContracts() error {
	files, err := findContractFiles(P.Repo)
	if err != nil {
		return err
	}
	sort.Strings(files)
	for _, f := range files {
		rel, _ := filepath.Rel(P.Repo, filepath.Dir(f))
		pkgPath := modulePath + "/" + filepath.ToSlash(rel)
		cf, err := parseContractFile(f, pkgPath)
		if err != nil {
			return err
		}
		P.Files = append(P.Files, cf)
		for _, c := range cf.Contracts {
			k := pkgPath + "::" + normFuncKey(c.Func)
			if _, dup := P.Contracts[k]; dup {
				return fmt.Errorf("%s:%d: duplicate contract for %s", c.File, c.Line, k)
			}
			P.Contracts[k] = c
		}
		for _, sf := range cf.SpecFns {
			if _, dup := P.SpecFns[sf.Name]; dup {
				return fmt.Errorf("%s:%d: duplicate spec fn %s", sf.File, sf.Line, sf.Name)
			}
			P.SpecFns[sf.Name] = sf
		}
		P.Lemmas = append(P.Lemmas, cf.Lemmas...)
		for _, td := range cf.Types {
			if fs := strings.SplitN(td, "=", 2); len(fs) == 2 {
				P.TypeAlias[strings.TrimSpace(fs[0])] = strings.TrimSpace(fs[1])
			}
		}
		for _, g := range cf.Ghosts {
			fs := strings.SplitN(strings.TrimSpace(g), " ", 2)
			if len(fs) == 2 {
				P.Ghosts[fs[0]] = strings.TrimSpace(fs[1])
				P.GhostPkg[fs[0]] = cf.Pkg
			}
		}
		for _, c := range cf.Contracts {
			if e := c.Options["extern"]; e != "" {
				P.Externs[e] = append(P.Externs[e], c)
			}
		}
	}
	return nil
}

func (P *Prog) contractOf(fn *ssa.Function) *Contract {
	if fn == nil {
		return nil
	}
	return P.Contracts[fnPkgPath(fn)+"::"+funcKey(fn)]
}

// findFunc resolves a contract to its ssa function.
func (P *Prog) findFunc(c *Contract) *ssa.Function {
	pkg := P.Pkgs[c.Pkg]
	if pkg == nil {
		return nil
	}
	key := normFuncKey(c.Func)
	// closures: name$N... possibly nested
	base := key
	var closurePath []string
	if i := strings.Index(key, "$"); i >= 0 {
		base = key[:i]
		closurePath = strings.Split(key[i+1:], "$")
	}
	var fn *ssa.Function
	if i := strings.Index(base, "."); i >= 0 {
		tname, mname := base[:i], base[i+1:]
		tm, ok := pkg.Members[tname].(*ssa.Type)
		if !ok {
			return nil
		}
		T := tm.Type()
		for _, t := range []types.Type{T, types.NewPointer(T)} {
			ms := P.SSA.MethodSets.MethodSet(t)
			for j := 0; j < ms.Len(); j++ {
				if ms.At(j).Obj().Name() == mname {
					f := P.SSA.MethodValue(ms.At(j))
					if f != nil && f.Synthetic == "" {
						fn = f
					}
				}
			}
			if fn != nil {
				break
			}
		}
	} else {
		f, ok := pkg.Members[base].(*ssa.Function)
		if ok {
			fn = f
		}
	}
	if fn == nil {
		return nil
	}
	for _, cp := range closurePath {
		var next *ssa.Function
		for _, af := range fn.AnonFuncs {
			if strings.HasSuffix(af.Name(), "$"+cp) {
				next = af
			}
		}
		if next == nil {
			return nil
		}
		fn = next
	}
	return fn
}

// isConstGlobal reports whether a package-level variable is never written outside package init
// and never has its address escape (only loads) in the loaded program.
func (P *Prog) isConstGlobal(g *ssa.Global) bool {
	if v, ok := P.constGlob[g]; ok {
		return v
	}
	res := true
	if g.Pkg == nil {
		P.constGlob[g] = true
		return true
	}
	// scan all functions of the loaded module packages that mention g
	for fn := range ssautil.AllFunctions(P.SSA) {
		if fn.Pkg == nil && fn.Parent() == nil {
			continue
		}
		isInit := fn.Name() == "init" || strings.HasPrefix(fn.Name(), "init#")
		for _, b := range fn.Blocks {
			for _, ins := range b.Instrs {
				for _, op := range ins.Operands(nil) {
					if *op != ssa.Value(g) {
						continue
					}
					switch x := ins.(type) {
					case *ssa.UnOp:
						// load: fine
					case *ssa.Store:
						if x.Addr == ssa.Value(g) && !isInit {
							res = false
						}
						if x.Val == ssa.Value(g) {
							res = false
						}
					case *ssa.FieldAddr, *ssa.IndexAddr:
						// conservatively: address of a part; check uses of that
						if !isInit && addrWritten(ins.(ssa.Value)) {
							res = false
						}
					case *ssa.DebugRef:
					default:
						if !isInit {
							res = false
						}
					}
				}
			}
		}
	}
	P.constGlob[g] = res
	return res
}

func addrWritten(v ssa.Value) bool {
	refs := v.Referrers()
	if refs == nil {
		return true
	}
	for _, r := range *refs {
		switch x := r.(type) {
		case *ssa.UnOp, *ssa.DebugRef:
		case *ssa.Store:
			if x.Addr == v || x.Val == v {
				return true
			}
		case *ssa.FieldAddr:
			if addrWritten(x) {
				return true
			}
		case *ssa.IndexAddr:
			if addrWritten(x) {
				return true
			}
		default:
			return true
		}
	}
	return false
}

// isNonNilSentinel: a constant global of interface or pointer type whose package initialiser stores a
// freshly created object (errors.New(...), fmt.Errorf(...), &T{...}, new(T)).
func (P *Prog) isNonNilSentinel(g *ssa.Global) bool {
	if g.Pkg == nil {
		return false
	}
	t := derefType(g.Type())
	switch t.Underlying().(type) {
	case *types.Interface, *types.Pointer:
	default:
		return false
	}
	init := g.Pkg.Func("init")
	if init == nil {
		return false
	}
	for _, b := range init.Blocks {
		for _, ins := range b.Instrs {
			st, ok := ins.(*ssa.Store)
			if !ok || st.Addr != ssa.Value(g) {
				continue
			}
			v := st.Val
			if mi, ok := v.(*ssa.MakeInterface); ok {
				v = mi.X
				if _, isPtr := v.Type().Underlying().(*types.Pointer); !isPtr {
					return true // boxed non-pointer value: non-nil interface
				}
			}
			switch x := v.(type) {
			case *ssa.Alloc:
				return true
			case *ssa.Call:
				if c := x.Call.StaticCallee(); c != nil {
					n := c.String()
					if n == "errors.New" || n == "fmt.Errorf" || n == "math/big.NewInt" {
						return true
					}
					// big.Int arithmetic returns its (non-nil) receiver
					if strings.HasPrefix(n, "(*math/big.Int).") {
						switch strings.TrimPrefix(n, "(*math/big.Int).") {
						case "Div", "Add", "Sub", "Mul", "Exp", "Lsh", "Rsh", "SetUint64", "SetInt64", "SetBytes", "Set", "Neg", "Abs", "Quo", "Rem", "Mod":
							return true
						}
					}
				}
			case *ssa.Extract:
				// new(big.Int).SetString("<literal>", base): decided by evaluating the literal
				if call, ok := x.Tuple.(*ssa.Call); ok && x.Index == 0 {
					if c := call.Call.StaticCallee(); c != nil && c.String() == "(*math/big.Int).SetString" && len(call.Call.Args) == 3 {
						lit, ok1 := call.Call.Args[1].(*ssa.Const)
						base, ok2 := call.Call.Args[2].(*ssa.Const)
						if ok1 && ok2 && lit.Value != nil && base.Value != nil {
							if _, ok := new(big.Int).SetString(constant.StringVal(lit.Value), int(base.Int64())); ok {
								return true
							}
						}
					}
				}
			}
		}
	}
	return false
}

// bigIntConst: a constant global *big.Int initialised in package init by big.NewInt(c) and never written.
func (P *Prog) bigIntConst(g *ssa.Global) (int64, bool) {
	if g.Pkg == nil {
		return 0, false
	}
	init := g.Pkg.Func("init")
	if init == nil {
		return 0, false
	}
	for _, b := range init.Blocks {
		for _, ins := range b.Instrs {
			st, ok := ins.(*ssa.Store)
			if !ok || st.Addr != ssa.Value(g) {
				continue
			}
			call, ok := st.Val.(*ssa.Call)
			if !ok {
				return 0, false
			}
			c := call.Call.StaticCallee()
			if c == nil || c.String() != "math/big.NewInt" || len(call.Call.Args) != 1 {
				return 0, false
			}
			k, ok := call.Call.Args[0].(*ssa.Const)
			if !ok || k.Value == nil {
				return 0, false
			}
			return k.Int64(), true
		}
	}
	return 0, false
}
