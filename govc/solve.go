package main

import (
	"bytes"
	"context"
	"fmt"
	"os"
	"os/exec"
	"path/filepath"
	"regexp"
	"sort"
	"strings"
	"sync"
	"time"
)

type preludeEntry struct {
	name string
	text string
	deps []string
	pkg  string
}

// buildPrelude indexes the raw SMT lines of all contract files.
func (P *Prog) buildPrelude() ([]*preludeEntry, map[string]*Sort) {
	var es []*preludeEntry
	sorts := map[string]*Sort{}
	for _, cf := range P.Files {
		for _, line := range cf.SMT {
			e := &preludeEntry{text: line, pkg: cf.Pkg}
			parts := []string{}
			if len(line) > 2 && line[0] == '(' {
				parts = splitSexp(line[1 : len(line)-1])
			}
			if len(parts) >= 4 && (parts[0] == "define-fun" || parts[0] == "define-fun-rec" || parts[0] == "declare-fun") {
				e.name = parts[1]
				sorts[e.name] = parseSortText(parts[3])
			} else if strings.HasPrefix(line, "(declare-const ") {
				fs := strings.Fields(strings.TrimSuffix(strings.TrimPrefix(line, "(declare-const "), ")"))
				if len(fs) >= 2 {
					e.name = fs[0]
					sorts[e.name] = parseSortText(strings.Join(fs[1:], " "))
				}
			}
			es = append(es, e)
		}
	}
	tokRe := regexp.MustCompile(`[A-Za-z_][A-Za-z0-9_!\-\.]*`)
	for _, e := range es {
		for _, t := range tokRe.FindAllString(e.text, -1) {
			if t != e.name {
				if _, ok := sorts[t]; ok {
					e.deps = append(e.deps, t)
				}
			}
		}
	}
	return es, sorts
}

func (vc *VC) useSMTFun(name string) {
	if vc.smtUsed[name] {
		return
	}
	vc.smtUsed[name] = true
	for _, e := range vc.prelude {
		if e.name == name {
			for _, d := range e.deps {
				vc.useSMTFun(d)
			}
		}
	}
}

// script assembles the standalone SMT-LIB query of an obligation.
func (vc *VC) script(o *Obligation) string {
	var b strings.Builder
	b.WriteString("(set-option :produce-models true)\n")
	b.WriteString("(set-logic ALL)\n")
	b.WriteString(vc.preludeText())
	for _, d := range vc.sortDecls {
		b.WriteString(d)
		b.WriteByte('\n')
	}
	if len(vc.strLitOrder) > 0 {
		var names []string
		for _, v := range vc.strLitOrder {
			t := vc.strLits[v]
			names = append(names, t.S)
			fmt.Fprintf(&b, "(assert (= (str-len %s) %s))\n", t.S, vc.idxLit(int64(len(v))).S)
			if len(v) <= 16 {
				for i := 0; i < len(v); i++ {
					fmt.Fprintf(&b, "(assert (= (str-at %s %s) %s))\n", t.S, vc.idxLit(int64(i)).S, vc.intConst(newBig(int64(v[i])), 8).S)
				}
			}
		}
		if len(names) > 1 {
			b.WriteString("(assert (distinct " + strings.Join(names, " ") + "))\n")
		}
	}
	b.WriteString(vc.libPrelude())
	// user prelude: declarations in dependency order, then the axioms whose functions are all in use
	emitted := map[*preludeEntry]bool{}
	byName := map[string]*preludeEntry{}
	for _, e := range vc.prelude {
		if e.name != "" {
			byName[e.name] = e
		}
	}
	var emit func(e *preludeEntry)
	emit = func(e *preludeEntry) {
		if emitted[e] {
			return
		}
		emitted[e] = true
		for _, d := range e.deps {
			if de := byName[d]; de != nil {
				emit(de)
			}
		}
		b.WriteString(e.text)
		b.WriteByte('\n')
	}
	for _, e := range vc.prelude {
		if e.name != "" && vc.smtUsed[e.name] {
			emit(e)
		}
	}
	for _, e := range vc.prelude {
		if e.name == "" && len(e.deps) > 0 {
			use := true
			for _, d := range e.deps {
				if !vc.smtUsed[d] {
					use = false
				}
			}
			if use {
				emit(e)
			}
		}
	}
	for _, d := range vc.constDecls {
		b.WriteString(d)
		b.WriteByte('\n')
	}
	var clabs []string
	for l := range vc.clauseLabels {
		clabs = append(clabs, l)
	}
	sort.Strings(clabs)
	for _, lab := range clabs {
		b.WriteString("(declare-fun |hasclause!" + lab + "| (Fn) Bool)\n")
		var names []string
		for n := range vc.fnConsts {
			names = append(names, n)
		}
		sort.Strings(names)
		for _, n := range names {
			con := vc.fnConsts[n]
			if con == nil {
				continue
			}
			has := "false"
			for _, c := range con.Requires {
				if c.Label == lab {
					has = "true"
				}
			}
			for _, c := range con.Ensures {
				if c.Label == lab {
					has = "true"
				}
			}
			b.WriteString("(assert (= (|hasclause!" + lab + "| " + n + ") " + has + "))\n")
		}
	}
	if vc.needNeedsWrite {
		b.WriteString("(declare-fun needswrite (Fn) Bool)\n")
		for _, a := range vc.needsWriteAxioms {
			b.WriteString(a)
			b.WriteByte('\n')
		}
	}
	for ref, k := range vc.bigConsts {
		// package-level big.Int constants (initialised by big.NewInt(k) in init and never written)
		for _, d := range vc.constDecls {
			if strings.HasPrefix(d, "(declare-const |P:math/big.Int!e") {
				name := strings.Fields(d)[1]
				fmt.Fprintf(&b, "(assert (and (> %s 0) (= (select %s %s) %d)))\n", ref, name, ref, k)
			}
		}
	}
	for _, c := range vc.sentinels {
		if c.T.K == SIface {
			fmt.Fprintf(&b, "(assert (and (> (ityp %s) 0) (> (iref %s) 0)))\n", c.S, c.S)
		} else {
			fmt.Fprintf(&b, "(assert (> %s 0))\n", c.S)
		}
	}
	if len(vc.sentinels) > 1 {
		var rs []string
		for ref, k := range vc.bigConsts {
		// package-level big.Int constants (initialised by big.NewInt(k) in init and never written)
		for _, d := range vc.constDecls {
			if strings.HasPrefix(d, "(declare-const |P:math/big.Int!e") {
				name := strings.Fields(d)[1]
				fmt.Fprintf(&b, "(assert (and (> %s 0) (= (select %s %s) %d)))\n", ref, name, ref, k)
			}
		}
	}
	for _, c := range vc.sentinels {
			if c.T.K == SIface {
				rs = append(rs, "(iref "+c.S+")")
			} else {
				rs = append(rs, c.S)
			}
		}
		b.WriteString("(assert (distinct " + strings.Join(rs, " ") + "))\n")
	}
	for _, d := range vc.specFnDecl {
		b.WriteString(d)
		b.WriteByte('\n')
	}
	for _, l := range vc.out[:o.Prefix] {
		b.WriteString(l)
		b.WriteByte('\n')
	}
	if o.Expect == "sat" {
		b.WriteString("(assert " + o.Reach.S + ")\n")
	} else {
		b.WriteString("(assert (not " + tImp(o.Reach, o.Goal).S + "))\n")
	}
	b.WriteString("(check-sat)\n")
	return b.String()
}

type solverSpec struct {
	name string
	args func(file string, timeoutS int) []string
}

var solvers = []solverSpec{
	{"z3-new", func(f string, t int) []string { return []string{"z3-new", fmt.Sprintf("-T:%d", t), f} }},
	{"z3", func(f string, t int) []string { return []string{"z3", fmt.Sprintf("-T:%d", t), f} }},
	{"z3-new-ematch", func(f string, t int) []string {
		return []string{"z3-new", "smt.auto_config=false", "smt.mbqi=false", fmt.Sprintf("-T:%d", t), f}
	}},
	{"cvc5", func(f string, t int) []string {
		return []string{"cvc5", "--produce-models", fmt.Sprintf("--tlimit=%d", t*1000), f}
	}},
}

type solveResult struct {
	result string // sat unsat unknown timeout error
	solver string
	out    string
	secs   float64
	all    map[string]string
}

// runSolvers races the portfolio on one script. needAgree: wait for a second solver to agree.
func runSolvers(script string, dir, base string, timeoutS int, needAgree bool, want string) solveResult {
	file := filepath.Join(dir, base+".smt2")
	os.WriteFile(file, []byte(script), 0o644)
	// cvc5 rejects the z3-only set-logic ALL? (it accepts ALL). Model file with get-model appended on demand.
	ctx, cancel := context.WithCancel(context.Background())
	defer cancel()
	type one struct {
		solver string
		res    string
		out    string
		secs   float64
	}
	ch := make(chan one, len(solvers))
	for si, s := range solvers {
		s := s
		// staged portfolio: z3-new and cvc5 start at once, the other configurations only if no answer came quickly
		delay := time.Duration(0)
		if s.name == "z3" || s.name == "z3-new-ematch" {
			delay = 1500 * time.Millisecond
		}
		_ = si
		go func() {
			if delay > 0 {
				select {
				case <-ctx.Done():
					ch <- one{s.name, "cancelled", "", 0}
					return
				case <-time.After(delay):
				}
			}
			t0 := time.Now()
			argv := s.args(file, timeoutS)
			cmd := exec.CommandContext(ctx, argv[0], argv[1:]...)
			var ob bytes.Buffer
			cmd.Stdout = &ob
			cmd.Stderr = &ob
			cmd.Run()
			out := ob.String()
			first := strings.TrimSpace(strings.SplitN(out, "\n", 2)[0])
			res := "error"
			switch {
			case first == "sat" || first == "unsat" || first == "unknown":
				res = first
			case strings.Contains(out, "timeout") || strings.Contains(out, "interrupted"):
				res = "timeout"
			case ctx.Err() != nil:
				res = "cancelled"
			}
			ch <- one{s.name, res, out, time.Since(t0).Seconds()}
		}()
	}
	all := map[string]string{}
	var best *one
	agree := 0
	for i := 0; i < len(solvers); i++ {
		r := <-ch
		all[r.solver] = r.res
		if r.res == "sat" || r.res == "unsat" {
			if best == nil {
				rr := r
				best = &rr
				agree = 1
			} else if best.res == r.res {
				agree++
			} else {
				// disagreement between solvers: report as error, never as success
				return solveResult{result: "disagree", solver: best.solver + "/" + r.solver, out: best.out + "\n---\n" + r.out, secs: r.secs, all: all}
			}
			if !needAgree {
				break
			}
			// thorough tier: let every solver finish (or time out); any disagreement is reported above
		}
	}
	cancel()
	if best != nil {
		return solveResult{result: best.res, solver: best.solver, out: best.out, secs: best.secs, all: all}
	}
	// no definite answer
	res := "unknown"
	nerr := 0
	for _, v := range all {
		if v == "timeout" {
			res = "timeout"
		}
		if v == "error" {
			nerr++
		}
	}
	if nerr == len(all) && nerr > 0 {
		// every solver rejected the query: a defect of the generator, never a verdict about the code
		res = "error"
	}
	var outs []string
	for k, v := range all {
		outs = append(outs, k+": "+v)
	}
	sort.Strings(outs)
	return solveResult{result: res, solver: "-", out: strings.Join(outs, "; "), all: all}
}

// getModel re-runs a sat query with (get-model) on the solver that answered.
func getModel(script, dir, base, solver string, timeoutS int) string {
	file := filepath.Join(dir, base+".model.smt2")
	os.WriteFile(file, []byte(script+"(get-model)\n"), 0o644)
	for _, s := range solvers {
		if s.name != solver {
			continue
		}
		argv := s.args(file, timeoutS)
		cmd := exec.Command(argv[0], argv[1:]...)
		var ob bytes.Buffer
		cmd.Stdout = &ob
		cmd.Stderr = &ob
		cmd.Run()
		return ob.String()
	}
	return ""
}

var noRetry map[string]bool

// solveAll discharges obligations in parallel.
func solveAll(jobs []*solveJob, dir string, timeoutS int, needAgree bool, par int) {
	var wg sync.WaitGroup
	sem := make(chan struct{}, par)
	for i, j := range jobs {
		if j.o.Trivial && j.o.Expect == "unsat" {
			j.o.Result, j.o.Solver = "unsat", "trivial"
			continue
		}
		wg.Add(1)
		sem <- struct{}{}
		go func(i int, j *solveJob) {
			defer wg.Done()
			defer func() { <-sem }()
			script := j.vc.script(j.o)
			j.o.Script = script
			base := fmt.Sprintf("o%05d_%s", i, sanitizeFile(j.o.Name))
			to := timeoutS
			if j.o.Expect == "sat" && to > 4 {
				to = 4 // vacuity probes: a model is found fast or not at all
			}
			r := runSolvers(script, dir, base, to, needAgree && j.o.Expect != "sat", j.o.Expect)
			j.o.Result, j.o.Solver, j.o.TimeS, j.o.Output = r.result, r.solver, r.secs, r.out
			if r.result == "sat" && j.o.Expect == "unsat" {
				j.o.Model = getModel(script, dir, base, r.solver, timeoutS)
			}
		}(i, j)
	}
	wg.Wait()
	// A timeout can be an artefact of machine load (several checks side by side, 20+ solver processes each): the
	// obligations that timed out - at most three per run, a genuinely broken function usually has more and is a
	// violation anyway - are tried once more, one at a time, with twice the time. A proof found here is a proof.
	retried := 0
	for i, j := range jobs {
		if retried >= 3 {
			break
		}
		if j.o.Expect != "unsat" || j.o.Result != "timeout" || noRetry[j.o.Name] {
			continue
		}
		retried++
		base := fmt.Sprintf("o%05d_%s_retry", i, sanitizeFile(j.o.Name))
		r := runSolvers(j.o.Script, dir, base, 2*timeoutS, needAgree, j.o.Expect)
		if r.result == "unsat" {
			j.o.Result, j.o.Solver, j.o.TimeS, j.o.Output = r.result, r.solver+" (retry)", r.secs, r.out
		}
	}
}

type solveJob struct {
	vc *VC
	o  *Obligation
}

func sanitizeFile(s string) string {
	var b strings.Builder
	for _, c := range s {
		if (c >= 'a' && c <= 'z') || (c >= 'A' && c <= 'Z') || (c >= '0' && c <= '9') || c == '.' || c == '-' || c == '_' {
			b.WriteRune(c)
		} else {
			b.WriteByte('_')
		}
	}
	if b.Len() > 80 {
		return b.String()[:80]
	}
	return b.String()
}
