#!/usr/bin/env python3
"""Prints the prompt given to an independent seeding sub-agent for one property (nothing from /verif but the
property text itself)."""
import json, sys
pid, n = sys.argv[1], (sys.argv[2] if len(sys.argv) > 2 else "1")
p = next(json.loads(l) for l in open('/verif/properties.jsonl') if json.loads(l)['id'] == pid)
d = f"/tmp/seed-{pid}" if n == "1" else f"/tmp/seed-{pid}-{n}"
print(f"""You are helping to evaluate a verification effort by producing a realistic, subtle bug.

Work ONLY inside the scratch git repository {d} (a copy of a Go project: a full node for the Rangers Protocol
blockchain, module path com.tuntun.rangers/node, sources under src/). Do not read or write anything under /verif or
/repo, and do not look for verification artefacts anywhere else.

The project is supposed to satisfy this semantic property:

  id: {p['id']}
  title: {p['title']}
  statement: {p['statement']}
  quantified over: {p['quantifier']['text']}
  why tests cannot settle it: {p['why_tests_cant']}
  code anchors (files): {', '.join(p['anchors']['files'])}
  mechanisms meant to make it hold: {json.dumps(p['anchors']['mechanism'])}

Your task: make ONE small change to the Go sources in {d}/src (not to tests) that BREAKS this property, while
  (a) the project still compiles (`go build ./...` in {d}), and
  (b) the existing tests of every package you touched still pass exactly as before your change (some tests in this
      repository fail already before any change; what matters is that the set of passing tests does not shrink).
The change must need something specific to manifest: an unusual input, a boundary value, a multi-step sequence of
operations, a particular interleaving or crash point, or two cooperating sites that each look fine alone. It must NOT
be something ordinary use or the existing tests expose at once, and it should look like a plausible edit a developer
could make (refactoring slip, wrong constant, dropped check, swapped operands, off-by-one, missing update).
Do not add new files to src/ other than your demonstration test.

Also write a demonstration: a Go test file (in the package concerned, named zz_seed_demo_test.go) whose test FAILS
with your change and PASSES without it, exercising the real code. Verify both directions yourself (use `git stash`
on the source change, keeping the test).

Environment facts: the sandbox has no network. Prefix every go command with
  GOFLAGS=-mod=mod GOPROXY=off GOSUMDB=off GOTOOLCHAIN=local
The first build of packages that link sqlite takes about 80 s. Any package that (transitively) imports
src/consensus/ticker or calls utility.GetTime() hangs forever at start-up because it waits for NTP; if your test
needs such a package, run it with an overlay that replaces src/utility/time.go by a copy in which the line
`if !ntpInitFlag {{` reads `if false && !ntpInitFlag {{` (go test -overlay ov.json ...). Many packages need
`common.Init(0, "1.ini", "dev")` and `common.SetBlockHeight(1)` before use (loggers are nil otherwise) - call
os.Chdir to a temp dir first because this writes files into the current directory. Use `-timeout 120s -vet=off`.

When done, leave in {d}:
  - the source change uncommitted in the working tree (so that `git diff -- src ':!*zz_seed_demo_test.go'` shows exactly it),
  - the demonstration test file,
and reply with: the `git diff` of the source change, the path of the demo test, the commands you ran with their
outcomes (with and without the change), one paragraph saying what the change needs in order to manifest and why the
existing tests do not see it.""")
