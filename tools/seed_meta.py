#!/usr/bin/env python3
# usage: seed_meta.py <seed-dir-name> <property> "<change>" "<effect>" "<caught_by or missed text>"
import sys, json, os
d, prop, change, effect, caught = sys.argv[1:6]
out = '/verif/seeded/' + d
rc = int(open(out + '/check_rc.txt').read().strip()) if os.path.exists(out + '/check_rc.txt') else None
demo = [f for f in os.listdir(out) if f.endswith('_test.go')]
m = {"property": prop,
     "origin": "independent sub-agent given only the property text and a scratch copy of /repo",
     "change": change, "effect": effect,
     "demonstration": demo[0] if demo else None,
     "demonstration_confirmed": "fails with the change, passes without it (tools/seed_eval.sh)",
     "check_exit_code_with_change_applied": rc,
     "caught_by": caught}
json.dump(m, open(out + '/meta.json', 'w'), indent=1)
print(out + '/meta.json')
