#!/usr/bin/env python3
"""usage: register.py <id> <claim text> <note>   -- moves a property from not_applicable to checks in MANIFEST.json"""
import json,sys,subprocess
pid,text,note=sys.argv[1:4]
m=json.load(open('/verif/MANIFEST.json'))
m['not_applicable']=[x for x in m['not_applicable'] if x['property_id']!=pid]
m['checks']=[c for c in m['checks'] if c['property_id']!=pid]
m['checks'].append({'property_id':pid,'quick_cmd':f'./check {pid} quick','thorough_cmd':f'./check {pid} thorough','evidence_file':f'/verif/evidence/{pid}.json','replay_cmd_template':'cat {path}','engine':'govc',
 'level_claimed':{'category':'proof','text':text,'design_ref':f'DESIGN.md section 3 {pid}'},'level_note':note,
 'technique':'contract-based deductive verification: WP verification conditions over go/ssa discharged by SMT (z3/cvc5)'})
m['checks'].sort(key=lambda c:c['property_id'])
m['hooks']['source_commits']=subprocess.check_output(['git','-C','/repo','log','--format=%h','--grep=^verif hook']).decode().split()
json.dump(m,open('/verif/MANIFEST.json','w'),indent=1)
print('registered',pid,len(m['checks']),'checks')
