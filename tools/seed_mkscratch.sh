#!/bin/bash
# usage: seed_mkscratch.sh <property-id> [n]  -- scratch copy of /repo for a seeding sub-agent, without any verification artefact
id=$1; n=${2:-1}
d=/tmp/seed-$id; [ "$n" != 1 ] && d=/tmp/seed-$id-$n
rm -rf $d; mkdir -p $d
rsync -a --exclude .git --exclude 'zz_verif_*.go' --exclude logs --exclude storage0 --exclude '*.ini' /repo/ $d/
(cd $d && git init -q && git add -A >/dev/null 2>&1 && git -c user.name=base -c user.email=base@example.com commit -q -m base && echo "scratch $d ready")
