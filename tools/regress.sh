#!/bin/bash
# usage: regress.sh <outdir>  - all registered quick checks, 4 side by side
out=$1; mkdir -p $out
ids=$(jq -r ".checks[].property_id" /verif/MANIFEST.json)
echo $ids | tr ' ' '\n' | xargs -P 4 -I{} bash -c '/usr/bin/time -f "{} %es" /verif/check {} quick > '$out'/{}.log 2>&1; echo "{} rc=$?" >> '$out'/rc.txt'
sort $out/rc.txt
