#!/usr/bin/env python3
"""Prints the [stack.OP] ensures clauses of vm.newInstructionSet (C11): for every base opcode
minStack = pops and maxStack = 1024 + pops - pushes, from the arity table below (Yellow Paper appendix H and the
EIPs that added opcodes), written independently of src/vm/jump_table.go. Paste the output into the contract of
newInstructionSet in src/vm/zz_verif_contracts.go when an opcode is added to the base table."""
A={}
def put(names,p,q):
    for n in names.split(): A[n]=(p,q)
put('STOP JUMPDEST BEGINSUB RETURNSUB',0,0)
put('ADD MUL SUB DIV SDIV MOD SMOD EXP SIGNEXTEND LT GT SLT SGT EQ AND OR XOR BYTE SHL SHR SAR SHA3',2,1)
put('ADDMOD MULMOD',3,1)
put('ISZERO NOT BALANCE CALLDATALOAD EXTCODESIZE EXTCODEHASH BLOCKHASH MLOAD SLOAD',1,1)
put('ADDRESS ORIGIN CALLER CALLVALUE CALLDATASIZE CODESIZE GASPRICE RETURNDATASIZE COINBASE TIMESTAMP NUMBER DIFFICULTY GASLIMIT CHAINID SELFBALANCE PC MSIZE GAS',0,1)
put('CALLDATACOPY CODECOPY RETURNDATACOPY',3,0)
put('EXTCODECOPY',4,0)
put('POP JUMP SELFDESTRUCT JUMPSUB',1,0)
put('MSTORE MSTORE8 SSTORE JUMPI RETURN REVERT',2,0)
for i in range(1,33): A['PUSH%d'%i]=(0,1)
for i in range(1,17): A['DUP%d'%i]=(i,i+1); A['SWAP%d'%i]=(i+1,i+1)
for i in range(5): A['LOG%d'%i]=(i+2,0)
put('CREATE',3,1); put('CALL CALLCODE',7,1); put('DELEGATECALL STATICCALL',6,1); put('CREATE2',4,1)
import re,sys
src=open(sys.argv[1] if len(sys.argv)>1 else '/repo/src/vm/jump_table.go').read()
src='\n'.join(l for l in src.split('\n') if not l.lstrip().startswith('//'))
names=re.findall(r'\n\t\t([A-Z0-9]+): \{',src)+re.findall(r'instructionSet\[([A-Z0-9]+)\] = &?operation\{',src)
for n in names:
    if n not in A:
        print('//@   # no arity known for %s: add it to tools/gen_jumptable_stack_contract.py'%n); continue
    a,b=A[n]
    print('//@   ensures [stack.%s] result[%s] != nil && result[%s].minStack == %d && result[%s].maxStack == %d'%(n,n,n,a,n,1024+a-b))
