#!/bin/bash
# usage: bounded_c03.sh <repo> <evidence.json> [property-id, default C03; C02 relies on the same enumeration when a root is reopened from disk]
# BOUNDED stand-in (labelled as such, never counted as proved) for the child enumeration of the node-database commit:
# runs the real gatherChildren / cachedNode.childs on 336 small node shapes through `go test -overlay` (nothing is
# written into the repository) and records the result in the evidence file.
repo=${1:-/repo}; ev=$2; pid=${3:-C03}
export GOFLAGS=-mod=mod GOPROXY=off GOSUMDB=off GOTOOLCHAIN=local
d=$(mktemp -d /tmp/vf-bounded-XXXXXX)
cp /verif/bounded/c03_gatherchildren_test.go.txt $d/zz_verif_bounded_test.go
sed 's/if !ntpInitFlag {/if false \&\& !ntpInitFlag {/' $repo/src/utility/time.go > $d/time.go
cat > $d/ov.json <<J
{"Replace": {"$repo/src/storage/trie/zz_verif_bounded_test.go": "$d/zz_verif_bounded_test.go", "$repo/src/utility/time.go": "$d/time.go"}}
J
start=$(date +%s.%N)
out=$(cd $repo && go test -overlay $d/ov.json -v -vet=off -count=1 -timeout 300s -run '^TestVerifBoundedGatherChildren$' ./src/storage/trie/ 2>&1); rc=$?
end=$(date +%s.%N)
line=$(echo "$out" | grep -o 'VERIF-BOUNDED cases=[0-9]* failures=[0-9]*' | head -1)
cases=$(echo "$line" | sed 's/.*cases=\([0-9]*\).*/\1/'); fails=$(echo "$line" | sed 's/.*failures=\([0-9]*\).*/\1/')
status=held
mkdir -p /verif/replays/$pid
if [ $rc -ne 0 ] || [ -z "$line" ] || [ "$fails" != 0 ]; then
  status=violated
  if [ -z "$line" ] && ! echo "$out" | grep -q -- '--- FAIL'; then status=undecided; fi
fi
if [ -n "$ev" ] && [ -f "$ev" ]; then
python3 - "$ev" "$status" "${cases:-0}" "${fails:-0}" "$start" "$end" <<'PY'
import json,sys
ev,status,cases,fails,s,e=sys.argv[1:7]
d=json.load(open(ev))
d['coverage']['bounded_checks']=[{"function":"trie.gatherChildren / trie.cachedNode.childs","kind":"BOUNDED (executes the real code; not a proof, not counted among the obligations)","bound":"collapsed branch nodes with at most two occupied child slots (hash node, embedded short node, embedded branch, value), nesting depth <= 2","cases":int(cases or 0),"failures":int(fails or 0),"result":status,"wall_s":round(float(e)-float(s),2),"source":"/verif/bounded/c03_gatherchildren_test.go.txt"}]
d.setdefault('assumptions',[])
if isinstance(d['assumptions'],list):
    d['assumptions'].append("cachedNode.childs/gatherChildren are trusted in the proof of NodeDatabase.commit; their child enumeration is only checked on a bounded set of node shapes (coverage.bounded_checks)")
json.dump(d,open(ev,'w'),indent=1)
PY
fi
if [ "$status" = violated ]; then
  echo "$out" | tail -40 > /verif/replays/$pid/bounded_gatherChildren.txt
  echo "VIOLATION property=$pid replay=/verif/replays/$pid/bounded_gatherChildren.txt obligation=bounded.gatherChildren clause=\"every hash node in a child slot of a collapsed branch node is collected (bounded check on the real code)\" result=failed cases=${cases:-?} failures=${fails:-?}"
  rm -rf $d; exit 1
fi
if [ "$status" = undecided ]; then
  echo "$out" | tail -20 > /verif/replays/$pid/bounded_gatherChildren.txt
  echo "UNDECIDED property=$pid reason=bounded check of gatherChildren did not run (see /verif/replays/$pid/bounded_gatherChildren.txt)"
  rm -rf $d; exit 2
fi
echo "BOUNDED property=$pid function=gatherChildren cases=$cases failures=0 (bounded check on the real code, not a proof)"
rm -rf $d; exit 0
