#!/bin/bash
# usage: seed_check.sh <seed-dir-name> [property]   -- runs the property's check with a stored seeded change applied to /repo
n=$1; id=${2:-${n%%-*}}
if [ -n "$(git -C /repo status --porcelain --untracked-files=no)" ]; then echo "/repo has uncommitted tracked changes"; exit 4; fi
cd /repo && git apply /verif/seeded/$n/patch.diff || exit 3
/verif/bin/govc verify -repo /repo -property $id -replays /tmp/vf-replays-seed -known /verif/known_findings.jsonl > /tmp/seed_check_$n.log 2>&1; rc=$?; if { [ "$id" = C03 ] || [ "$id" = C02 ]; } && [ $rc -eq 0 ]; then /verif/tools/bounded_c03.sh /repo "" "$id" >> /tmp/seed_check_$n.log 2>&1; rc=$?; fi
git -C /repo checkout -- .
grep -E "^VIOLATION|^property=|^UNDECIDED" /tmp/seed_check_$n.log | cut -c1-300
echo "check exit code: $rc"
echo $rc > /verif/seeded/$n/check_rc.txt
grep -E "^VIOLATION" /tmp/seed_check_$n.log | sed 's/ replay=[^ ]*//' | cut -c1-300 > /verif/seeded/$n/check_violations.txt
rm -rf /tmp/vf-replays-seed.keep; mv /tmp/vf-replays-seed /tmp/vf-replays-seed.keep 2>/dev/null
