#!/bin/bash
# usage: seed_eval.sh <property-id> [suffix]
# Confirms a sub-agent's seeded change in its scratch copy (build, demo fails with / passes without),
# stores it under /verif/seeded/<id>[-suffix]/ and runs the property's check against it on /repo
# (applied with git apply and undone straight afterwards).
id=$1; suf=${2:-}
d=/tmp/seed-$id${suf:+-$suf}
out=/verif/seeded/$id${suf:+-$suf}
export GOFLAGS=-mod=mod GOPROXY=off GOSUMDB=off GOTOOLCHAIN=local
cd $d || exit 2
demo=$(git status --porcelain | grep 'zz_seed_demo_test.go' | awk '{print $2}' | head -1)
[ -z "$demo" ] && { echo "no demo test in $d"; exit 2; }
pkg=./$(dirname $demo)
git diff -- src ':!*zz_seed_demo_test.go' > /tmp/seed_patch_$id.diff
[ -s /tmp/seed_patch_$id.diff ] || { echo "empty patch"; exit 2; }
echo "== build with change"; go build ./... 2>&1 | grep -v "sqlite\|warning\|^ *|\|^[0-9 ]*|\|^#" | head -5
ov=""
if grep -rq "consensus/ticker\|utility.GetTime" $pkg 2>/dev/null; then :; fi
# overlay for NTP (harmless when not needed)
mkdir -p /tmp/seed_ov_$id && sed 's/if !ntpInitFlag {/if false \&\& !ntpInitFlag {/' $d/src/utility/time.go > /tmp/seed_ov_$id/time.go
echo "{\"Replace\": {\"$d/src/utility/time.go\": \"/tmp/seed_ov_$id/time.go\"}}" > /tmp/seed_ov_$id/ov.json
echo "== demo WITH change (must fail)"
go test -overlay /tmp/seed_ov_$id/ov.json -timeout 300s -vet=off -count=1 -run '(?i)seed' $pkg > /tmp/seed_with_$id.log 2>&1; rc_with=$?
tail -3 /tmp/seed_with_$id.log | cut -c1-200
git stash push -q -- $(git diff --name-only -- src ':!*zz_seed_demo_test.go')
echo "== demo WITHOUT change (must pass)"
go test -overlay /tmp/seed_ov_$id/ov.json -timeout 300s -vet=off -count=1 -run '(?i)seed' $pkg > /tmp/seed_without_$id.log 2>&1; rc_without=$?
tail -2 /tmp/seed_without_$id.log | cut -c1-200
git stash pop -q
echo "rc_with=$rc_with rc_without=$rc_without"
if [ $rc_with -eq 0 ] || [ $rc_without -ne 0 ]; then echo "SEED NOT CONFIRMED"; exit 1; fi
mkdir -p $out && cp /tmp/seed_patch_$id.diff $out/patch.diff && cp $d/$demo $out/$(basename $demo)
# run the check on /repo with the change applied
if [ -n "$(git -C /repo status --porcelain --untracked-files=no)" ]; then echo "/repo has uncommitted tracked changes; commit them first (git checkout would discard them)"; exit 4; fi
cd /repo && git apply $out/patch.diff || { echo "patch does not apply to /repo"; exit 3; }
/verif/bin/govc verify -repo /repo -property $id -replays /tmp/vf-replays-seed -known /verif/known_findings.jsonl > /tmp/seed_check_$id.log 2>&1; rc=$?; if { [ "$id" = C03 ] || [ "$id" = C02 ]; } && [ $rc -eq 0 ]; then /verif/tools/bounded_c03.sh /repo "" "$id" >> /tmp/seed_check_$id.log 2>&1; rc=$?; fi
git -C /repo checkout -- . 
grep -E "^VIOLATION|^property=|^UNDECIDED" /tmp/seed_check_$id.log | cut -c1-260
echo "check exit code: $rc"
echo $rc > $out/check_rc.txt
grep -E "^VIOLATION" /tmp/seed_check_$id.log | sed 's/ replay=[^ ]*//' | cut -c1-300 > $out/check_violations.txt
rm -rf /tmp/seed_ov_$id /tmp/vf-replays-seed
