#!/bin/bash
# Warm the go build cache used by packages.Load (-tags verif) so that checks take seconds.
export GOFLAGS=-mod=mod GOPROXY=off GOSUMDB=off GOTOOLCHAIN=local
cd /repo && go list -export -deps -tags verif ./src/... >/dev/null 2>&1
exit 0
