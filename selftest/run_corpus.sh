#!/bin/bash
# usage: run_corpus.sh <property-id>|all [jobs]
# Runs the must-fail mutants (selftest/mutants/<id>_*.patch: govc must report a violation), the changes seeded
# by independent sub-agents (/verif/seeded/<id>[-n]/patch.diff: must be detected too, unless documented as
# NOT_DETECTABLE) and the must-not-alarm controls (selftest/neutral/<id>_*.patch: govc must stay green), each
# on its own scratch copy of /repo. Up to [jobs] cases run side by side (default 4).
sel=$1; jobs=${2:-4}
cd /verif/selftest
shopt -s nullglob nocaseglob
list=$(mktemp /tmp/vf-corpus-XXXXXX)
for p in mutants/*.patch; do
  b=$(basename $p .patch); id=$(echo ${b%%_*} | tr a-z A-Z)
  [ "$sel" != all ] && [ "$id" != "$sel" ] && continue
  echo "mutant $b $id $PWD/$p" >> $list
done
for p in ../seeded/*/patch.diff; do
  d=$(basename $(dirname $p)); id=${d%%-*}
  [ "$sel" != all ] && [ "$id" != "$sel" ] && continue
  if [ -f $(dirname $p)/NOT_DETECTABLE ]; then echo "SELFTEST skip seeded-$d (documented as outside the contracts' reach)"; continue; fi
  echo "seeded seeded-$d $id $(readlink -f $p)" >> $list
done
for p in neutral/*.patch; do
  b=$(basename $p .patch); id=$(echo ${b%%_*} | tr a-z A-Z)
  [ "$sel" != all ] && [ "$id" != "$sel" ] && continue
  echo "neutral $b $id $PWD/$p" >> $list
done
one() {
  kind=$1; b=$2; id=$3; p=$4
  out=$(REPLAYS=/tmp/vf-replays-corpus-$$-$b /verif/selftest/run_mutant.sh $p $id -noreplay -par 6 2>&1); rc=$?
  rm -rf /tmp/vf-replays-corpus-$$-$b
  if echo "$out" | grep -q '^STALE'; then echo "SELFTEST stale $b"; return; fi
  case $kind in
    neutral)
      if [ $rc -ne 0 ]; then echo "SELFTEST-FALSE-ALARM $b: neutral change raised rc=$rc"; else echo "SELFTEST ok   $b (no alarm)"; fi;;
    *)
      want=$(grep -h '^# expect:' $p | head -1 | sed 's/# expect: *//')
      if [ $rc -ne 1 ]; then echo "SELFTEST-MISS $b: change not detected (rc=$rc)"
      elif [ -n "$want" ] && ! echo "$out" | grep -q "obligation=$want"; then echo "SELFTEST-MISS $b: expected obligation $want not among failures"
      else echo "SELFTEST ok   $b (detected)"; fi;;
  esac
}
export -f one
res=$(mktemp /tmp/vf-corpus-res-XXXXXX)
xargs -a $list -P $jobs -L 1 bash -c 'one "$@"' _ | tee $res
n=$(wc -l < $list); miss=$(grep -c 'SELFTEST-MISS\|SELFTEST-FALSE-ALARM' $res)
rm -f $list $res
echo "SELFTEST summary: $n cases, $miss problems"
[ "$miss" -eq 0 ]
