#!/bin/bash
# usage: run_corpus.sh <property-id>|all
# Runs the must-fail mutants (selftest/mutants/<id>_*.patch: govc must report a violation) and the
# must-not-alarm controls (selftest/neutral/<id>_*.patch: govc must stay green) on scratch copies.
sel=$1
cd /verif/selftest
miss=0; n=0
shopt -s nullglob nocaseglob
for p in mutants/*.patch; do
  b=$(basename $p .patch); id=$(echo ${b%%_*} | tr a-z A-Z)
  [ "$sel" != all ] && [ "$id" != "$sel" ] && continue
  n=$((n+1))
  out=$(REPLAYS=/tmp/vf-replays-corpus ./run_mutant.sh $PWD/$p $id -noreplay 2>&1); rc=$?
  if echo "$out" | grep -q '^STALE'; then echo "SELFTEST stale $b"; continue; fi
  want=$(grep -h '^# expect:' $p | head -1 | sed 's/# expect: *//')
  if [ $rc -ne 1 ]; then echo "SELFTEST-MISS $b: mutant not detected (rc=$rc)"; miss=$((miss+1)); continue; fi
  if [ -n "$want" ] && ! echo "$out" | grep -q "obligation=$want"; then echo "SELFTEST-MISS $b: expected obligation $want not among failures"; miss=$((miss+1)); continue; fi
  echo "SELFTEST ok   $b (detected)"
done
# changes seeded by independent sub-agents (/verif/seeded/<id>[-n]/patch.diff): must be detected too
for p in ../seeded/*/patch.diff; do
  b=seeded-$(basename $(dirname $p)); id=$(basename $(dirname $p)); id=${id%%-*}
  [ "$sel" != all ] && [ "$id" != "$sel" ] && continue
  [ -f $(dirname $p)/NOT_DETECTABLE ] && { echo "SELFTEST skip $b (documented as outside the contracts' reach)"; continue; }
  n=$((n+1))
  out=$(REPLAYS=/tmp/vf-replays-corpus ./run_mutant.sh $(readlink -f $p) $id -noreplay 2>&1); rc=$?
  if echo "$out" | grep -q '^STALE'; then echo "SELFTEST stale $b"; continue; fi
  if [ $rc -ne 1 ]; then echo "SELFTEST-MISS $b: seeded change not detected (rc=$rc)"; miss=$((miss+1)); continue; fi
  echo "SELFTEST ok   $b (detected)"
done
for p in neutral/*.patch; do
  b=$(basename $p .patch); id=$(echo ${b%%_*} | tr a-z A-Z)
  [ "$sel" != all ] && [ "$id" != "$sel" ] && continue
  n=$((n+1))
  out=$(REPLAYS=/tmp/vf-replays-corpus ./run_mutant.sh $PWD/$p $id -noreplay 2>&1); rc=$?
  if echo "$out" | grep -q '^STALE'; then echo "SELFTEST stale $b"; continue; fi
  if [ $rc -ne 0 ]; then echo "SELFTEST-FALSE-ALARM $b: neutral change raised rc=$rc"; miss=$((miss+1)); continue; fi
  echo "SELFTEST ok   $b (no alarm)"
done
rm -rf /tmp/vf-replays-corpus
echo "SELFTEST summary: $n cases, $miss problems"
[ $miss -eq 0 ]
