#!/bin/bash
# usage: run_mutant.sh <patch> <property> [extra govc args]
# Copies /repo's working tree to a scratch dir, applies the patch, runs govc there, removes the copy.
set -u
patch=$1; prop=$2; shift 2
export GOFLAGS=-mod=mod GOPROXY=off GOSUMDB=off GOTOOLCHAIN=local
scratch=$(mktemp -d /tmp/vf-mut-XXXXXX)
trap 'rm -rf "$scratch"' EXIT
rsync -a --exclude .git --exclude 'logs' --exclude 'storage0' /repo/ "$scratch/"
if ! (cd "$scratch" && patch -p1 -s --no-backup-if-mismatch < "$patch"); then
  echo "STALE patch does not apply: $patch"; exit 3
fi
/verif/bin/govc verify -repo "$scratch" -property "$prop" -replays "${REPLAYS:-/tmp/vf-replays}" -known "${KNOWN:-/verif/known_findings.jsonl}" "$@"
rc=$?
if { [ "$prop" = C03 ] || [ "$prop" = C02 ]; } && [ $rc -eq 0 ]; then
  /verif/tools/bounded_c03.sh "$scratch" "" "$prop"; rc=$?
fi
exit $rc
